(* West's weighted variance in binary64, continued (Num/WestErrF64.v):
   8. the returned quotient s / (wsum - ddof) against S / (W - ddof);
   9. the bounds as explicit polynomials in n under the smallness hypothesis n u <= 1/64;
   10. concrete inputs satisfying every hypothesis. *)
From Flocq Require Import Core BinarySingleNaN Plus_error Relative.
Require Import Reals Lra Lia ZArith Psatz Bool List.
From NS Require Import Num.F64 Num.Ops Num.F64Inst Num.RInst Num.Kernels Num.SumBridge Num.SumF64.
From NS Require Import Quantile.IndexProofs Quantile.InterpF64 Num.WestF64 Num.MeansF64.
From NS Require Import Num.WestErrR Num.WestErrF64.
Import ListNotations.
Open Scope R_scope.

Local Instance prec64_gt_0V : Prec_gt_0 53 := Hprec64.
Local Instance vexp64V : Valid_exp fx := fexp_correct 53 1024 Hprec64.

(* West's loop calls no libm function: the oracle tables of f64_ops are irrelevant *)
Lemma west_tables_irrelevant (lt et : list (Z * Z)) (data ws : list F64) (ddof : F64) :
  west (f64_ops lt et) data ws ddof = west OW data ws ddof.
Proof. reflexivity. Qed.
Lemma west_step_tables_irrelevant (lt et : list (Z * Z)) st xw :
  west_step (f64_ops lt et) st xw = west_step OW st xw.
Proof. reflexivity. Qed.

(* ------------------------------------------------------------------ *)
(* 8. The final quotient                                               *)
(* ------------------------------------------------------------------ *)
Lemma final_quot_error (wsum s ddof : F64) (W Sq ES : R) (n : nat) :
  fis_finite wsum = true -> fis_finite s = true -> fis_finite ddof = true ->
  0 <= Sq -> Rabs (B2R wsum - W) <= g64 n * W -> Rabs (B2R s - Sq) <= ES ->
  0 <= B2R ddof -> 0 < W - B2R ddof -> g64 (n + 1) * W <= / 4 * (W - B2R ddof) ->
  fis_finite (fdiv s (fsub wsum ddof)) = true ->
  Rabs (B2R (fdiv s (fsub wsum ddof)) - Sq / (W - B2R ddof))
    <= 4 / 3 * (ES + Sq * (g64 (n + 1) * W / (W - B2R ddof))) / (W - B2R ddof) * (1 + u64)
       + Sq / (W - B2R ddof) * u64 + eta64.
Proof.
  intros Fwsum Fs Fd HSq HWe HSe Hd0 HDel Hsmall Fres.
  set (Del := W - B2R ddof) in *.
  pose proof u64_pos as Hu. pose proof (g64_nonneg n) as Gn.
  assert (HW : 0 < W) by (unfold Del in HDel; lra).
  assert (G1 : g64 (n + 1) = g64 n * (1 + u64) + u64).
  { replace (n + 1)%nat with (S n) by lia. apply g64_S. }
  assert (Gle : g64 n <= g64 (n + 1)) by (apply g64_mono; lia).
  apply Rabs_le_inv in HWe.
  assert (Hlt : B2R ddof < B2R wsum).
  { assert (g64 n * W <= g64 (n + 1) * W) by (apply Rmult_le_compat_r; lra). unfold Del in *. lra. }
  destruct (rnd_minus_fac (B2R wsum) (B2R ddof) (fmt_B2R wsum) (fmt_B2R ddof)) as (f & Rf & Ef).
  pose proof (rel_pos _ _ Rf) as Pf. pose proof (rel_abs _ _ Rf) as Af. pose proof (rel_err _ _ Rf) as Erf.
  rewrite pu_1 in Af. replace (g64 1) with u64 in Erf by (unfold g64; ring).
  assert (Hpos : 0 < rnd (B2R wsum - B2R ddof)) by (rewrite Ef; apply Rmult_lt_0_compat; lra).
  assert (Hle : rnd (B2R wsum - B2R ddof) <= B2R wsum) by (apply rnd_le_fmt; [apply fmt_B2R | lra]).
  assert (Hb : Rabs (rnd (B2R wsum - B2R ddof)) < bpow radix2 1024).
  { rewrite Rabs_pos_eq by lra. pose proof (B2R_bound wsum Fwsum) as B. apply Rabs_def2 in B. lra. }
  destruct (fsub_correct wsum ddof Fwsum Fd Hb) as (Fden & Eden).
  set (D' := B2R (fsub wsum ddof)) in *.
  assert (HD' : Rabs (D' - Del) <= g64 (n + 1) * W).
  { rewrite Eden, Ef. replace ((B2R wsum - B2R ddof) * f - Del) with ((B2R wsum - W) * f + Del * (f - 1)) by (unfold Del; ring).
    eapply Rle_trans; [apply Rabs_triang|].
    assert (T1 : Rabs ((B2R wsum - W) * f) <= g64 n * W * (1 + u64)).
    { apply Rabs_mul_le; [apply Rabs_le; exact HWe | exact Af]. }
    assert (T2 : Rabs (Del * (f - 1)) <= Del * u64).
    { rewrite Rabs_mult, (Rabs_pos_eq Del) by lra. apply Rmult_le_compat_l; lra. }
    assert (T3 : Del * u64 <= W * u64) by (apply Rmult_le_compat_r; unfold Del; lra).
    rewrite G1. lra. }
  set (c := g64 (n + 1) * W / Del).
  assert (IDel : 0 < / Del) by (apply Rinv_0_lt_compat; exact HDel).
  assert (EDel : Del * / Del = 1) by (apply Rinv_r; lra).
  assert (Hc : 0 <= c <= / 4).
  { unfold c, Rdiv. split.
    - apply Rmult_le_pos; [|lra]. apply Rmult_le_pos; [|lra]. pose proof (g64_nonneg (n + 1)). lra.
    - apply Rmult_le_reg_r with Del; [exact HDel|]. rewrite Rmult_assoc, (Rmult_comm (/ Del)), EDel. lra. }
  assert (HcD : Rabs (D' - Del) <= c * Rabs Del).
  { rewrite (Rabs_pos_eq Del) by lra. unfold c, Rdiv. rewrite Rmult_assoc, (Rmult_comm (/ Del)), EDel. lra. }
  assert (HE : Rabs (B2R s - Sq) + Rabs Sq * c <= ES + Sq * c).
  { rewrite (Rabs_pos_eq Sq) by exact HSq. lra. }
  destruct (quot_error Sq (B2R s) Del D' (ES + Sq * c) c ltac:(lra) Hc HcD HE) as (ND' & HQ).
  rewrite (Rabs_pos_eq Del) in HQ by lra.
  destruct (fdiv_val s (fsub wsum ddof) ND' Fres) as (_ & Eres). fold D' in Eres.
  rewrite Eres.
  assert (Hq : Rabs (Sq / Del) <= Sq / Del).
  { rewrite Rabs_pos_eq; [lra|]. unfold Rdiv. apply Rmult_le_pos; lra. }
  exact (round_near (Sq / Del) (B2R s / D') (Sq / Del) _ Hq HQ).
Qed.

(* (4) the returned value of west against S / (W - ddof), for any bound ES on |s_fl - S| ... *)
Theorem west_var_error_gen (data ws : list F64) (ddof : F64) (ES : R) :
  let l := combine data ws in
  let n := length l in
  let Del := dW l - B2R ddof in
  west_run_ok st0 l -> Rabs (B2R (ss (frun l)) - dS l) <= ES ->
  fis_finite ddof = true -> 0 <= B2R ddof -> 0 < Del ->
  g64 (n + 1) * dW l <= / 4 * Del ->
  fis_finite (west OW data ws ddof) = true ->
  Rabs (B2R (west OW data ws ddof) - dS l / Del)
    <= 4 / 3 * (ES + dS l * (g64 (n + 1) * dW l / Del)) / Del * (1 + u64)
       + dS l / Del * u64 + eta64.
Proof.
  intros l n Del Hok E3 Fd Hd0 HDel Hsmall Fres.
  pose proof (west_wsum_error l Hok) as E1.
  pose proof (west_s_nonneg_f64 data ws Hok) as ((Fwsum & Fm & Fs) & _ & _).
  pose proof (dS_nonneg l (run_ok_weights _ _ Hok)) as HS0.
  rewrite west_unfold in *. unfold l in E1, E3. rewrite frun_west_final in E1, E3.
  destruct (west_final data ws) as [[wsum m] s]. unfold sw, sm, ss in *. cbn [fst snd] in *.
  exact (final_quot_error wsum s ddof (dW l) (dS l) ES n Fwsum Fs Fd HS0 E1 E3 Hd0 HDel Hsmall Fres).
Qed.

(* ... and with the a-priori bound *)
Theorem west_var_error (data ws : list F64) (ddof : F64) (X : R) :
  let l := combine data ws in
  let n := length l in
  let Del := dW l - B2R ddof in
  0 <= X -> west_run_ok st0 l -> obs_le X l ->
  fis_finite ddof = true -> 0 <= B2R ddof -> 0 < Del ->
  g64 (n + 1) * dW l <= / 4 * Del ->
  fis_finite (west OW data ws ddof) = true ->
  Rabs (B2R (west OW data ws ddof) - dS l / Del)
    <= 4 / 3 * (ssq_bound n X (dW l) (dS l) + dS l * (g64 (n + 1) * dW l / Del)) / Del * (1 + u64)
       + dS l / Del * u64 + eta64.
Proof.
  intros l n Del HX Hok Hobs Fd Hd0 HDel Hsmall Fres.
  assert (HW : 0 < dW l) by (unfold Del in HDel; lra).
  pose proof (west_ssq_error l X HX Hok Hobs HW) as E3.
  exact (west_var_error_gen data ws ddof _ Hok E3 Fd Hd0 HDel Hsmall Fres).
Qed.

(* ------------------------------------------------------------------ *)
(* 9. Polynomial form of the bounds under  n u <= 1/64                 *)
(* ------------------------------------------------------------------ *)
Lemma u64_tiny : u64 <= / 1048576.
Proof. unfold u64. change (/ 1048576) with (bpow radix2 (-20)). apply bpow_le. lia. Qed.

Section Poly.
Variable n : nat.
Hypothesis Hn : INR n * u64 <= / 64.
Let t := INR n.

Lemma t_nonneg : 0 <= t. Proof. apply pos_INR. Qed.

Lemma small_j j : (j <= 7)%nat -> INR (n + j) * u64 <= / 63.
Proof.
  intros Hj. rewrite plus_INR. pose proof u64_tiny as Hu. pose proof u64_pos as Hu0.
  assert (INR j <= 7).
  { replace 7 with (INR 7) by (rewrite INR_IZR_INZ; reflexivity). apply le_INR. exact Hj. }
  assert (INR j * u64 <= 7 * u64) by (apply Rmult_le_compat_r; lra).
  lra.
Qed.

Lemma g64_lin j : (j <= 7)%nat -> g64 (n + j) <= 64 / 63 * (INR (n + j) * u64).
Proof.
  intros Hj. pose proof (small_j j Hj) as Hs.
  assert (H1 : INR (n + j) * u64 <= 1) by lra.
  pose proof (g64_poly (n + j) H1) as G.
  assert (0 <= INR (n + j) * u64) by (apply Rmult_le_pos; [apply pos_INR | apply Rlt_le, u64_pos]).
  nra.
Qed.

Lemma pu_small j : (j <= 7)%nat -> pu (n + j) <= 61 / 60.
Proof.
  intros Hj. rewrite pu_g. pose proof (g64_lin j Hj) as G. pose proof (small_j j Hj) as Hs. lra.
Qed.

Lemma pu_n_small : pu n <= 61 / 60.
Proof. pose proof (pu_small 0 ltac:(lia)) as H. rewrite Nat.add_0_r in H. exact H. Qed.
Lemma pu2_small : pu 2 <= 61 / 60.
Proof. eapply Rle_trans; [apply (pu_mono 2 (n + 3)); lia | apply pu_small; lia]. Qed.
Lemma pu3_small : pu 3 <= 61 / 60.
Proof. eapply Rle_trans; [apply (pu_mono 3 (n + 3)); lia | apply pu_small; lia]. Qed.

Variable X : R.
Hypothesis HX : 0 <= X.

Lemma DhX_small : 0 <= DhX n X <= 121 / 60 * X.
Proof.
  unfold DhX. pose proof (pu_small 3 ltac:(lia)) as P. pose proof (pu_pos (n + 3)) as P0.
  split; [apply Rmult_le_pos; lra | nra].
Qed.

Lemma eI_small : 0 <= eI (DhX n X) <= eta64 * (21 / 10 * X + 1).
Proof.
  pose proof DhX_small as [D0 D1]. split; [apply eI_nonneg; exact D0|].
  unfold eI. apply Rmult_le_compat_l; [apply Rlt_le, eta64_pos|].
  pose proof pu2_small as P2. pose proof (pu_pos 2) as P20.
  assert (DhX n X * pu 2 <= 121 / 60 * X * (61 / 60)) by (apply Rmult_le_compat; lra).
  lra.
Qed.

(* (2) in polynomial form: c1(n) = 3.15 n + 8.5 *)
Lemma mean_bound_poly :
  mean_bound n X <= (63 / 20 * t + 17 / 2) * u64 * X + t * (eta64 * (11 / 5 * X + 11 / 10)).
Proof.
  unfold mean_bound, BM. fold t.
  pose proof DhX_small as [D0 D1]. pose proof eI_small as [E0 E1].
  pose proof pu_n_small as Pn. pose proof (pu_pos n) as Pn0.
  pose proof (g64_lin 4 ltac:(lia)) as G. pose proof (g64_nonneg (n + 4)) as G0.
  rewrite plus_INR in G. fold t in G. replace (INR 4) with 4 in G by (rewrite INR_IZR_INZ; reflexivity).
  pose proof u64_pos as Hu. pose proof t_nonneg as Ht. pose proof eta64_pos as Het.
  unfold GM.
  set (P1 := u64 * X). assert (HP1 : 0 <= P1) by (unfold P1; nra).
  set (P2 := t * P1). assert (HP2 : 0 <= P2) by (unfold P2; nra).
  assert (A1 : g64 (n + 4) * DhX n X <= 64 / 63 * ((t + 4) * u64) * (121 / 60 * X)).
  { apply Rmult_le_compat; lra. }
  assert (A1' : 64 / 63 * ((t + 4) * u64) * (121 / 60 * X) = 64 / 63 * (121 / 60) * (P2 + 4 * P1)).
  { unfold P2, P1. ring. }
  set (ee := eta64 * (21 / 10 * X + 1)) in *.
  assert (Hee : 0 <= ee) by lra.
  assert (A2 : t * (u64 * X + eI (DhX n X)) <= P2 + t * ee).
  { unfold P2, P1. assert (t * eI (DhX n X) <= t * ee) by (apply Rmult_le_compat_l; lra). lra. }
  assert (A3 : 0 <= g64 (n + 4) * DhX n X + t * (u64 * X + eI (DhX n X))).
  { assert (0 <= g64 (n + 4) * DhX n X) by (apply Rmult_le_pos; lra).
    assert (0 <= t * (u64 * X + eI (DhX n X))) by (apply Rmult_le_pos; [lra|]; fold P1; lra). lra. }
  assert (A4 : pu n * (g64 (n + 4) * DhX n X + t * (u64 * X + eI (DhX n X)))
               <= 61 / 60 * (64 / 63 * (121 / 60) * (P2 + 4 * P1) + (P2 + t * ee))).
  { apply Rmult_le_compat; lra. }
  eapply Rle_trans; [exact A4|].
  assert (Hte : 0 <= t * ee) by (apply Rmult_le_pos; lra).
  replace ((63 / 20 * t + 17 / 2) * u64 * X) with (63 / 20 * P2 + 17 / 2 * P1) by (unfold P2, P1; ring).
  replace (t * (eta64 * (11 / 5 * X + 11 / 10))) with (11 / 10 * (t * (eta64 * (2 * X + 1)))) by field.
  assert (Hee2 : t * ee <= t * (eta64 * (21 / 10 * X + 1))) by (unfold ee; lra).
  assert (Hte2 : 61 / 60 * (t * (eta64 * (21 / 10 * X + 1))) <= 11 / 10 * (t * (eta64 * (2 * X + 1)))).
  { assert (0 <= t * (eta64 * X)) by (apply Rmult_le_pos; [lra|]; apply Rmult_le_pos; lra).
    assert (0 <= t * eta64) by (apply Rmult_le_pos; lra). nra. }
  unfold ee in *. lra.
Qed.

(* (3) in polynomial form *)
Variables W Sq : R.
Hypotheses (HW : 0 <= W) (HSq : 0 <= Sq).

Lemma ssq_bound_poly :
  ssq_bound n X W Sq <=
    ((21 / 10 * t + 15 / 2) * Sq + (27 / 2 * t + 36) * (W * (X * X))) * u64
    + t * (eta64 * (W * X * (14 * X + 7) + 11 / 5 * X + 11 / 10)).
Proof.
  unfold ssq_bound, BS, KS. fold (mean_bound n X). fold t.
  pose proof DhX_small as [D0 D1]. pose proof mean_bound_poly as MBp.
  pose proof pu_n_small as Pn. pose proof (pu_pos n) as Pn0.
  pose proof pu2_small as P2s. pose proof (pu_pos 2) as P20.
  pose proof pu3_small as P3s. pose proof (pu_pos 3) as P30.
  pose proof (g64_lin 7 ltac:(lia)) as G. pose proof (g64_nonneg (n + 7)) as G0.
  rewrite plus_INR in G. fold t in G. replace (INR 7) with 7 in G by (rewrite INR_IZR_INZ; reflexivity).
  pose proof (pu_small 7 ltac:(lia)) as P7. rewrite pu_g in P7.
  pose proof u64_pos as Hu. pose proof t_nonneg as Ht. pose proof eta64_pos as Het.
  assert (MB0 : 0 <= mean_bound n X) by (unfold mean_bound; apply BM_nonneg; assumption).
  unfold GS.
  (* monomials *)
  set (m1 := u64 * Sq). set (m2 := t * (u64 * Sq)). set (m3 := u64 * (W * (X * X))).
  set (m4 := t * (u64 * (W * (X * X)))). set (m5 := t * (eta64 * (W * (X * X)))).
  set (m6 := t * (eta64 * (W * X))). set (m7 := t * (eta64 * X)). set (m8 := t * eta64).
  assert (HXX : 0 <= X * X) by nra. assert (HWX : 0 <= W * X) by nra.
  assert (HWXX : 0 <= W * (X * X)) by nra.
  assert (H1 : 0 <= m1) by (unfold m1; nra).
  assert (H2 : 0 <= m2) by (unfold m2; apply Rmult_le_pos; [lra | nra]).
  assert (H3 : 0 <= m3) by (unfold m3; nra).
  assert (H4 : 0 <= m4) by (unfold m4; apply Rmult_le_pos; [lra | nra]).
  assert (H5 : 0 <= m5) by (unfold m5; apply Rmult_le_pos; [lra | nra]).
  assert (H6 : 0 <= m6) by (unfold m6; apply Rmult_le_pos; [lra | nra]).
  assert (H7 : 0 <= m7) by (unfold m7; apply Rmult_le_pos; [lra | nra]).
  assert (H8 : 0 <= m8) by (unfold m8; nra).
  (* A: the S part *)
  assert (A : (g64 (n + 7) + t * u64) * Sq <= 127 / 63 * m2 + 64 / 9 * m1).
  { assert ((g64 (n + 7) + t * u64) * Sq <= (64 / 63 * ((t + 7) * u64) + t * u64) * Sq).
    { apply Rmult_le_compat_r; lra. }
    replace (127 / 63 * m2 + 64 / 9 * m1) with ((64 / 63 * ((t + 7) * u64) + t * u64) * Sq) by (unfold m1, m2; field).
    exact H. }
  (* B: the cross term *)
  set (MB := (63 / 20 * t + 17 / 2) * u64 * X + t * (eta64 * (11 / 5 * X + 11 / 10))) in *.
  assert (B1 : (1 + g64 (n + 7)) * (mean_bound n X * (2 * X + DhX n X)) <= 61 / 60 * (MB * (241 / 60 * X))).
  { apply Rmult_le_compat; [lra | apply Rmult_le_pos; lra | lra |].
    apply Rmult_le_compat; lra. }
  assert (B2 : W * ((1 + g64 (n + 7)) * (mean_bound n X * (2 * X + DhX n X)))
               <= 61 / 60 * (241 / 60) * (63 / 20 * m4 + 17 / 2 * m3 + 11 / 5 * m5 + 11 / 10 * m6)).
  { replace (61 / 60 * (241 / 60) * (63 / 20 * m4 + 17 / 2 * m3 + 11 / 5 * m5 + 11 / 10 * m6))
      with (W * (61 / 60 * (MB * (241 / 60 * X)))) by (unfold MB, m3, m4, m5, m6; field).
    apply Rmult_le_compat_l; [exact HW | exact B1]. }
  (* C: the underflow term of s *)
  assert (C0 : DhX n X * pu 2 + 1 <= 21 / 10 * X + 1).
  { assert (DhX n X * pu 2 <= 121 / 60 * X * (61 / 60)) by (apply Rmult_le_compat; lra). lra. }
  assert (C0' : DhX n X * pu 3 <= 21 / 10 * X).
  { assert (DhX n X * pu 3 <= 121 / 60 * X * (61 / 60)) by (apply Rmult_le_compat; lra). lra. }
  assert (C1 : W * pu n * (DhX n X * pu 2 + 1) * DhX n X * pu 3
               <= 61 / 60 * W * (21 / 10 * X + 1) * (21 / 10 * X)).
  { rewrite (Rmult_assoc _ (DhX n X) (pu 3)).
    assert (0 <= DhX n X * pu 2) by (apply Rmult_le_pos; lra).
    apply Rmult_le_compat; [| apply Rmult_le_pos; lra | | exact C0'].
    - apply Rmult_le_pos; [apply Rmult_le_pos; lra | lra].
    - apply Rmult_le_compat; [apply Rmult_le_pos; lra | lra | | exact C0].
      rewrite (Rmult_comm (61 / 60)). apply Rmult_le_compat_l; lra. }
  assert (C2 : t * eS (W * pu n) (DhX n X)
               <= 61 / 60 * (21 / 10) * (21 / 10) * m5 + 61 / 60 * (21 / 10) * m6 + 21 / 10 * m7 + m8).
  { unfold eS.
    replace (61 / 60 * (21 / 10) * (21 / 10) * m5 + 61 / 60 * (21 / 10) * m6 + 21 / 10 * m7 + m8)
      with (t * (eta64 * (61 / 60 * W * (21 / 10 * X + 1) * (21 / 10 * X) + (21 / 10 * X + 1))))
      by (unfold m5, m6, m7, m8; field).
    apply Rmult_le_compat_l; [exact Ht|]. apply Rmult_le_compat_l; [lra|]. lra. }
  (* D: assemble *)
  set (T := (g64 (n + 7) + t * u64) * Sq + W * ((1 + g64 (n + 7)) * (mean_bound n X * (2 * X + DhX n X)))
            + t * eS (W * pu n) (DhX n X)) in *.
  assert (T0 : 0 <= T).
  { unfold T. assert (0 <= (g64 (n + 7) + t * u64) * Sq) by (apply Rmult_le_pos; nra).
    assert (0 <= W * ((1 + g64 (n + 7)) * (mean_bound n X * (2 * X + DhX n X)))).
    { apply Rmult_le_pos; [exact HW|]. apply Rmult_le_pos; [lra|]. apply Rmult_le_pos; lra. }
    assert (0 <= t * eS (W * pu n) (DhX n X)).
    { apply Rmult_le_pos; [exact Ht|]. apply eS_nonneg; [apply Rmult_le_pos; lra | exact D0]. }
    lra. }
  assert (D : pu n * T <= 61 / 60 * T) by (apply Rmult_le_compat_r; lra).
  eapply Rle_trans; [exact D|].
  replace (((21 / 10 * t + 15 / 2) * Sq + (27 / 2 * t + 36) * (W * (X * X))) * u64
           + t * (eta64 * (W * X * (14 * X + 7) + 11 / 5 * X + 11 / 10)))
    with (21 / 10 * m2 + 15 / 2 * m1 + 27 / 2 * m4 + 36 * m3 + 14 * m5 + 7 * m6 + 11 / 5 * m7 + 11 / 10 * m8)
    by (unfold m1, m2, m3, m4, m5, m6, m7, m8; field).
  unfold T. lra.
Qed.
End Poly.

(* the headline theorems in polynomial form *)
Theorem west_wsum_error_poly (l : list (F64 * F64)) :
  west_run_ok st0 l -> INR (length l) * u64 <= / 64 ->
  Rabs (B2R (sw (frun l)) - dW l) <= 65 / 64 * INR (length l) * u64 * dW l.
Proof.
  intros Hok Hn. eapply Rle_trans; [apply west_wsum_error; exact Hok|].
  pose proof (wsumR_nonneg l (run_ok_weights _ _ Hok)) as HW. fold (dW l) in HW.
  apply Rmult_le_compat_r; [exact HW|].
  pose proof (g64_poly (length l) ltac:(lra)) as G.
  assert (0 <= INR (length l) * u64) by (apply Rmult_le_pos; [apply pos_INR | apply Rlt_le, u64_pos]).
  nra.
Qed.

Theorem west_mean_error_poly (l : list (F64 * F64)) (X : R) :
  0 <= X -> west_run_ok st0 l -> obs_le X l -> 0 < dW l -> INR (length l) * u64 <= / 64 ->
  Rabs (B2R (sm (frun l)) - dM l)
    <= (63 / 20 * INR (length l) + 17 / 2) * u64 * X
       + INR (length l) * (eta64 * (11 / 5 * X + 11 / 10)).
Proof.
  intros HX Hok Hobs HW Hn. eapply Rle_trans; [apply west_mean_error; eassumption|].
  apply mean_bound_poly; assumption.
Qed.

Theorem west_ssq_error_poly (l : list (F64 * F64)) (X : R) :
  0 <= X -> west_run_ok st0 l -> obs_le X l -> 0 < dW l -> INR (length l) * u64 <= / 64 ->
  Rabs (B2R (ss (frun l)) - dS l)
    <= ((21 / 10 * INR (length l) + 15 / 2) * dS l
        + (27 / 2 * INR (length l) + 36) * (dW l * (X * X))) * u64
       + INR (length l) * (eta64 * (dW l * X * (14 * X + 7) + 11 / 5 * X + 11 / 10)).
Proof.
  intros HX Hok Hobs HW Hn. eapply Rle_trans; [apply west_ssq_error; eassumption|].
  apply ssq_bound_poly; try assumption; [lra | apply dS_nonneg, (run_ok_weights _ _ Hok)].
Qed.

(* the explicit polynomial bound on |s_fl - S| *)
Definition ssq_poly (n : nat) (X W Sq : R) : R :=
  ((21 / 10 * INR n + 15 / 2) * Sq + (27 / 2 * INR n + 36) * (W * (X * X))) * u64
  + INR n * (eta64 * (W * X * (14 * X + 7) + 11 / 5 * X + 11 / 10)).

Theorem west_var_error_poly (data ws : list F64) (ddof : F64) (X : R) :
  let l := combine data ws in
  let n := length l in
  let Del := dW l - B2R ddof in
  0 <= X -> west_run_ok st0 l -> obs_le X l ->
  fis_finite ddof = true -> 0 <= B2R ddof -> 0 < Del ->
  INR n * u64 <= / 64 -> dW l <= 12 * Del ->
  fis_finite (west OW data ws ddof) = true ->
  Rabs (B2R (west OW data ws ddof) - dS l / Del)
    <= 4 / 3 * (ssq_poly n X (dW l) (dS l)
                + dS l * (64 / 63 * ((INR n + 1) * u64) * dW l / Del)) / Del * (1 + u64)
       + dS l / Del * u64 + eta64.
Proof.
  intros l n Del HX Hok Hobs Fd Hd0 HDel Hn Hk Fres.
  assert (HW : 0 < dW l) by (unfold Del in HDel; lra).
  pose proof (g64_lin n Hn 1 ltac:(lia)) as G. rewrite plus_INR in G.
  replace (INR 1) with 1 in G by (rewrite INR_IZR_INZ; reflexivity).
  pose proof (small_j n Hn 1 ltac:(lia)) as Hs. rewrite plus_INR in Hs.
  replace (INR 1) with 1 in Hs by (rewrite INR_IZR_INZ; reflexivity).
  pose proof (g64_nonneg (n + 1)) as G0.
  assert (Hsmall : g64 (n + 1) * dW l <= / 4 * Del).
  { assert (g64 (n + 1) <= / 48) by lra.
    assert (g64 (n + 1) * dW l <= / 48 * dW l) by (apply Rmult_le_compat_r; lra). lra. }
  pose proof (west_var_error data ws ddof X HX Hok Hobs Fd Hd0 HDel Hsmall Fres) as B.
  cbv zeta in B. fold l n Del in B.
  eapply Rle_trans; [exact B|].
  pose proof (dS_nonneg l (run_ok_weights _ _ Hok)) as HS0.
  assert (P : ssq_bound n X (dW l) (dS l) <= ssq_poly n X (dW l) (dS l)).
  { unfold ssq_poly. apply ssq_bound_poly; try assumption; lra. }
  assert (IDel : 0 < / Del) by (apply Rinv_0_lt_compat; exact HDel).
  pose proof u64_pos as Hu.
  assert (Q : dS l * (g64 (n + 1) * dW l / Del) <= dS l * (64 / 63 * ((INR n + 1) * u64) * dW l / Del)).
  { apply Rmult_le_compat_l; [exact HS0|]. unfold Rdiv. apply Rmult_le_compat_r; [lra|].
    apply Rmult_le_compat_r; lra. }
  apply Rplus_le_compat_r. apply Rplus_le_compat_r.
  apply Rmult_le_compat_r; [lra|]. unfold Rdiv. apply Rmult_le_compat_r; [lra|].
  apply Rmult_le_compat_l; lra.
Qed.

(* the weight sum is positive as soon as the computed one is (a checkable condition) *)
Lemma dW_pos_of_float (l : list (F64 * F64)) :
  west_run_ok st0 l -> 0 < B2R (sw (frun l)) -> 0 < dW l.
Proof.
  intros Hok Hpos. pose proof (west_wsum_error l Hok) as E.
  pose proof (wsumR_nonneg l (run_ok_weights _ _ Hok)) as HW. fold (dW l) in HW.
  destruct (Req_dec (dW l) 0) as [Z | NZ]; [|lra].
  rewrite Z, Rmult_0_r, Rminus_0_r in E. pose proof (Rabs_pos (B2R (sw (frun l)))) as P.
  assert (Z' : Rabs (B2R (sw (frun l))) = 0) by lra.
  rewrite Rabs_pos_eq in Z' by lra. lra.
Qed.

(* a checkable sufficient condition for the hypotheses on ddof: twice ddof does not exceed the
   computed weight sum *)
Lemma ddof_ok_of_float (l : list (F64 * F64)) (d : R) :
  west_run_ok st0 l -> INR (length l) * u64 <= / 64 ->
  0 <= d -> 0 < B2R (sw (frun l)) -> 2 * d <= B2R (sw (frun l)) ->
  0 < dW l - d /\ dW l <= 12 * (dW l - d).
Proof.
  intros Hok Hn Hd Hpos H2.
  pose proof (west_wsum_error_poly l Hok Hn) as E. pose proof (dW_pos_of_float l Hok Hpos) as HW.
  apply Rabs_le_inv in E. pose proof u64_pos as Hu.
  assert (65 / 64 * INR (length l) * u64 * dW l <= / 60 * dW l).
  { apply Rmult_le_compat_r; [lra|]. lra. }
  split; lra.
Qed.

(* ------------------------------------------------------------------ *)
(* 10. The hypotheses are satisfiable                                  *)
(* ------------------------------------------------------------------ *)
(* data [1; 2; 4; -3], weights [1; 0; 2; 0.5] (Num/WestF64.v ex_data, ex_ws), ddof = 1 *)
Definition ex_l : list (F64 * F64) := combine ex_data ex_ws.

Lemma ex_run_ok : west_run_ok st0 ex_l.
Proof. exact west_run_ok_example. Qed.
Lemma ex_small : INR (length ex_l) * u64 <= / 64.
Proof.
  change (length ex_l) with 4%nat. replace (INR 4) with 4 by (rewrite INR_IZR_INZ; reflexivity).
  pose proof u64_tiny. lra.
Qed.
Lemma ex_wsum_ge_2 : 2 <= B2R (sw (frun ex_l)).
Proof.
  assert (F : fis_finite (sw (frun ex_l)) = true) by (vm_compute; reflexivity).
  destruct ftwo_spec as [F2 E2]. rewrite <- E2.
  apply (fle_spec ftwo (sw (frun ex_l)) F2 F). vm_compute. reflexivity.
Qed.
Lemma ex_dW_pos : 0 < dW ex_l.
Proof. apply dW_pos_of_float; [exact ex_run_ok | pose proof ex_wsum_ge_2; lra]. Qed.

Example west_error_example :
  let X := Xmax ex_l in
  Rabs (B2R (sw (frun ex_l)) - dW ex_l) <= 65 / 64 * 4 * u64 * dW ex_l /\
  Rabs (B2R (sm (frun ex_l)) - dM ex_l)
    <= (63 / 20 * 4 + 17 / 2) * u64 * X + 4 * (eta64 * (11 / 5 * X + 11 / 10)) /\
  Rabs (B2R (ss (frun ex_l)) - dS ex_l) <= ssq_poly 4 X (dW ex_l) (dS ex_l) /\
  Rabs (B2R (west OW ex_data ex_ws fone) - dS ex_l / (dW ex_l - 1))
    <= 4 / 3 * (ssq_poly 4 X (dW ex_l) (dS ex_l)
                + dS ex_l * (64 / 63 * ((4 + 1) * u64) * dW ex_l / (dW ex_l - 1))) / (dW ex_l - 1) * (1 + u64)
       + dS ex_l / (dW ex_l - 1) * u64 + eta64.
Proof.
  intros X.
  assert (E4 : INR (length ex_l) = 4).
  { change (length ex_l) with 4%nat. rewrite INR_IZR_INZ. reflexivity. }
  pose proof (Xmax_nonneg ex_l) as HX. pose proof (obs_le_Xmax ex_l) as Hobs.
  pose proof (west_wsum_error_poly ex_l ex_run_ok ex_small) as T1.
  pose proof (west_mean_error_poly ex_l X HX ex_run_ok Hobs ex_dW_pos ex_small) as T2.
  pose proof (west_ssq_error_poly ex_l X HX ex_run_ok Hobs ex_dW_pos ex_small) as T3.
  rewrite E4 in T1, T2, T3.
  assert (E4' : INR 4 = 4) by (rewrite INR_IZR_INZ; reflexivity).
  split; [exact T1|]. split; [exact T2|]. split; [unfold ssq_poly; rewrite E4'; exact T3|].
  destruct fone_spec as [F1 E1].
  pose proof ex_wsum_ge_2 as H2.
  destruct (ddof_ok_of_float ex_l 1 ex_run_ok ex_small ltac:(lra) ltac:(lra) ltac:(lra)) as [HD1 HD2].
  assert (Fres : fis_finite (west OW ex_data ex_ws fone) = true) by (vm_compute; reflexivity).
  pose proof (west_var_error_poly ex_data ex_ws fone X HX ex_run_ok Hobs F1) as T4.
  cbv zeta in T4. fold ex_l in T4. rewrite E1 in T4.
  specialize (T4 ltac:(lra) HD1 ex_small HD2 Fres).
  unfold ssq_poly in *. rewrite E4 in T4. rewrite E4'. exact T4.
Qed.

Print Assumptions west_var_error.
Print Assumptions west_var_error_poly.
Print Assumptions west_mean_error_poly.
Print Assumptions west_ssq_error_poly.
Print Assumptions west_error_example.
