(* Forward error in IEEE-754 binary64 of one entry of pearson_correlation (correlation.rs) as coded:
       cov = self.cov(0);  std = self.std_axis(Axis(1), 0);  std_matrix = std.dot(&std.t());
       result = cov / std_matrix
   - cov entry: ANY evaluation order of the row sums and of the dot product, fused or not
     (Num/CovF64.v);
   - std: ndarray's var_axis (Welford with a fused multiply-add, Num/WelfordF64.v) then sqrt;
   - std_matrix entry: ONE rounding of sigma_i * sigma_j (a 1-term dot product: a product added to
     +0, fused or not, is a single rounding), i.e. [fmul];
   - the element-wise division [fdiv].
   1. real-number lemmas (perturbed quotient, perturbed product);
   2. the generic composition: any approximations of the covariance and of the two standard
      deviations;
   3. Cauchy-Schwarz for the centred cross products: |rho| <= 1;
   4. the instantiation with the proved bounds (headline [pearson_entry_error_f64]) and its
      corollaries (diagonal, range);
   5. the executable matrix model [pearson_welford] is an instance;
   6. a concrete example. *)
From Flocq Require Import Core BinarySingleNaN Plus_error Relative.
Require Import Reals Lra Lia ZArith Psatz Bool List Permutation.
From NS Require Import Num.F64 Num.Ops Num.F64Inst Num.Cov Num.SumBridge Num.SumF64
  Quantile.IndexProofs Quantile.InterpF64 Num.DeviationF64 Num.MeansF64 Num.CovF64 Num.DerivedF64.
From NS Require Import Num.WestErrR Num.WelfordF64 Num.WelfordErrR Num.WelfordErrF64.
From NS Require Num.CovR.
Import ListNotations.
Open Scope R_scope.

Local Instance prec64_gt_0P : Prec_gt_0 53 := Hprec64.
Local Instance vexp64P : Valid_exp fx := fexp_correct 53 1024 Hprec64.

(* ------------------------------------------------------------------ *)
(* 1. Real-number lemmas                                               *)
(* ------------------------------------------------------------------ *)
(* N'/D' against N/D when |D' - D| <= c |D| with c < 1 *)
Lemma quot_error_lt1 (N N' D D' E c : R) :
  D <> 0 -> 0 <= c < 1 ->
  Rabs (D' - D) <= c * Rabs D ->
  Rabs (N' - N) + Rabs N * c <= E ->
  D' <> 0 /\ Rabs (N' / D' - N / D) <= E / ((1 - c) * Rabs D).
Proof.
  intros HD Hc HDd HE.
  assert (PD : 0 < Rabs D) by (apply Rabs_pos_lt; exact HD).
  assert (LD : (1 - c) * Rabs D <= Rabs D').
  { pose proof (Rabs_triang_inv D D') as T. rewrite (Rabs_minus_sym D D') in T. lra. }
  assert (PL : 0 < (1 - c) * Rabs D) by (apply Rmult_lt_0_compat; lra).
  assert (ND : D' <> 0).
  { intros Z. rewrite Z, Rabs_R0 in LD. lra. }
  split; [exact ND|].
  assert (PD' : 0 < Rabs D') by lra.
  replace (N' / D' - N / D) with (((N' - N) - N * ((D' - D) / D)) * / D') by (field; split; assumption).
  rewrite Rabs_mult, Rabs_inv.
  assert (B1 : Rabs ((N' - N) - N * ((D' - D) / D)) <= E).
  { eapply Rle_trans; [apply Rabs_triang|]. rewrite Rabs_Ropp, Rabs_mult.
    assert (Q : Rabs ((D' - D) / D) <= c).
    { unfold Rdiv. rewrite Rabs_mult, Rabs_inv.
      apply Rmult_le_reg_r with (Rabs D); [exact PD|].
      rewrite Rmult_assoc, Rinv_l by lra. lra. }
    assert (Rabs N * Rabs ((D' - D) / D) <= Rabs N * c).
    { apply Rmult_le_compat_l; [apply Rabs_pos | exact Q]. }
    lra. }
  assert (E0 : 0 <= E).
  { pose proof (Rabs_pos (N' - N)). pose proof (Rabs_pos N).
    assert (0 <= Rabs N * c) by (apply Rmult_le_pos; lra). lra. }
  assert (B2 : / Rabs D' <= / ((1 - c) * Rabs D)) by (apply Rinv_le_contravar; assumption).
  unfold Rdiv.
  apply Rmult_le_compat; [apply Rabs_pos | apply Rlt_le, Rinv_0_lt_compat; exact PD' | exact B1 | exact B2].
Qed.

(* the product of two approximations, relative to the exact product *)
Lemma prod_pert (a b si sj Ei Ej : R) : 0 < si -> 0 < sj ->
  Rabs (a - si) <= Ei -> Rabs (b - sj) <= Ej ->
  Rabs (a * b - si * sj) <= (Ei / si + Ej / sj + Ei / si * (Ej / sj)) * (si * sj).
Proof.
  intros Hi Hj Ha Hb.
  replace ((Ei / si + Ej / sj + Ei / si * (Ej / sj)) * (si * sj)) with (Ei * sj + si * Ej + Ei * Ej)
    by (field; split; lra).
  replace (a * b - si * sj) with ((a - si) * sj + si * (b - sj) + (a - si) * (b - sj)) by ring.
  eapply Rle_trans; [apply Rabs_triang|].
  eapply Rle_trans; [apply Rplus_le_compat_r; apply Rabs_triang|].
  assert (P1 : Rabs ((a - si) * sj) <= Ei * sj).
  { apply Rabs_mul_le; [exact Ha | rewrite Rabs_pos_eq; lra]. }
  assert (P2 : Rabs (si * (b - sj)) <= si * Ej).
  { apply Rabs_mul_le; [rewrite Rabs_pos_eq; lra | exact Hb]. }
  assert (P3 : Rabs ((a - si) * (b - sj)) <= Ei * Ej) by (apply Rabs_mul_le; assumption).
  lra.
Qed.

(* ------------------------------------------------------------------ *)
(* 2. The generic composition                                          *)
(* ------------------------------------------------------------------ *)
(* relative error of the computed entry of std_matrix; Ei, Ej: errors of the two std's *)
Definition pearson_relP (Ei Ej si sj : R) : R :=
  (Ei / si + Ej / sj + Ei / si * (Ej / sj)) * (1 + u64) + u64 + eta64 / (si * sj).

Lemma pearson_relP_nonneg Ei Ej si sj : 0 <= Ei -> 0 <= Ej -> 0 < si -> 0 < sj ->
  0 <= pearson_relP Ei Ej si sj.
Proof.
  intros H1 H2 H3 H4. unfold pearson_relP. pose proof u64_pos. pose proof eta64_pos.
  assert (0 <= Ei / si) by (apply Rmult_le_pos; [lra | apply Rlt_le, Rinv_0_lt_compat; lra]).
  assert (0 <= Ej / sj) by (apply Rmult_le_pos; [lra | apply Rlt_le, Rinv_0_lt_compat; lra]).
  assert (0 <= Ei / si * (Ej / sj)) by (apply Rmult_le_pos; lra).
  assert (0 < si * sj) by (apply Rmult_lt_0_compat; lra).
  assert (0 <= eta64 / (si * sj)) by (apply Rmult_le_pos; [lra | apply Rlt_le, Rinv_0_lt_compat; lra]).
  assert (0 <= (Ei / si + Ej / sj + Ei / si * (Ej / sj)) * (1 + u64)) by (apply Rmult_le_pos; lra).
  lra.
Qed.

(* the entry of std_matrix: one rounding of the product of the two computed std's *)
Lemma std_product_error (sif sjf : F64) (si sj Ei Ej : R) : 0 < si -> 0 < sj ->
  Rabs (B2R sif - si) <= Ei -> Rabs (B2R sjf - sj) <= Ej ->
  fin (fmul sif sjf) = true ->
  Rabs (B2R (fmul sif sjf) - si * sj) <= pearson_relP Ei Ej si sj * (si * sj).
Proof.
  intros Hi Hj Ha Hb Hf. rewrite (fmul_value _ _ Hf).
  assert (HP : 0 < si * sj) by (apply Rmult_lt_0_compat; lra).
  pose proof (prod_pert _ _ si sj Ei Ej Hi Hj Ha Hb) as PP.
  assert (HQ : Rabs (si * sj) <= si * sj) by (rewrite Rabs_pos_eq; lra).
  eapply Rle_trans; [apply (round_near _ _ _ _ HQ PP)|].
  unfold pearson_relP. apply Req_le. field. split; lra.
Qed.

(* the quotient: C approximated by cf, P > 0 approximated by p with relative error relP <= 1/2 *)
Lemma pearson_quot (cf p : F64) (C P Ec relP : R) : 0 < P ->
  Rabs (B2R cf - C) <= Ec -> Rabs (B2R p - P) <= relP * P -> 0 <= relP <= / 2 ->
  fin (fdiv cf p) = true ->
  Rabs (B2R (fdiv cf p) - C / P)
    <= 2 * (Ec + Rabs C * relP) / P * (1 + u64) + Rabs (C / P) * u64 + eta64.
Proof.
  intros HP Hc Hp Hr Hf.
  assert (NP : P <> 0) by lra.
  assert (Hp' : Rabs (B2R p - P) <= relP * Rabs P) by (rewrite (Rabs_pos_eq P); lra).
  assert (HE : Rabs (B2R cf - C) + Rabs C * relP <= Ec + Rabs C * relP) by lra.
  destruct (quot_error_lt1 C (B2R cf) P (B2R p) _ relP NP ltac:(lra) Hp' HE) as [Np Q].
  rewrite (Rabs_pos_eq P) in Q by lra.
  destruct (fdiv_value cf p Np Hf) as [Ev _]. rewrite Ev.
  set (E := Ec + Rabs C * relP) in *.
  assert (E0 : 0 <= E).
  { unfold E. pose proof (Rabs_pos (B2R cf - C)). pose proof (Rabs_pos C).
    assert (0 <= Rabs C * relP) by (apply Rmult_le_pos; lra). lra. }
  assert (Q2 : E / ((1 - relP) * P) <= 2 * E / P).
  { assert (I : / ((1 - relP) * P) <= 2 * / P).
    { replace (2 * / P) with (/ (/ 2 * P)) by (field; lra).
      apply Rinv_le_contravar; [lra|]. apply Rmult_le_compat_r; lra. }
    unfold Rdiv. replace (2 * E * / P) with (E * (2 * / P)) by ring.
    apply Rmult_le_compat_l; assumption. }
  assert (Q3 : Rabs (B2R cf / B2R p - C / P) <= 2 * E / P) by lra.
  exact (round_near (C / P) (B2R cf / B2R p) (Rabs (C / P)) _ (Rle_refl _) Q3).
Qed.

(* GENERIC COMPOSITION: any approximations cf of C and sif, sjf of si, sj > 0 *)
Theorem pearson_entry_generic (cf sif sjf : F64) (C si sj Ec Ei Ej : R) :
  0 < si -> 0 < sj ->
  Rabs (B2R cf - C) <= Ec -> Rabs (B2R sif - si) <= Ei -> Rabs (B2R sjf - sj) <= Ej ->
  pearson_relP Ei Ej si sj <= / 2 ->
  fin (fmul sif sjf) = true -> fin (fdiv cf (fmul sif sjf)) = true ->
  Rabs (B2R (fdiv cf (fmul sif sjf)) - C / (si * sj))
    <= 2 * (Ec + Rabs C * pearson_relP Ei Ej si sj) / (si * sj) * (1 + u64)
       + Rabs (C / (si * sj)) * u64 + eta64.
Proof.
  intros Hi Hj Hc Ha Hb Hr Fp Hf.
  assert (HP : 0 < si * sj) by (apply Rmult_lt_0_compat; lra).
  assert (Ei0 : 0 <= Ei) by (pose proof (Rabs_pos (B2R sif - si)); lra).
  assert (Ej0 : 0 <= Ej) by (pose proof (Rabs_pos (B2R sjf - sj)); lra).
  pose proof (pearson_relP_nonneg Ei Ej si sj Ei0 Ej0 Hi Hj) as R0.
  pose proof (std_product_error sif sjf si sj Ei Ej Hi Hj Ha Hb Fp) as PE.
  exact (pearson_quot cf (fmul sif sjf) C (si * sj) Ec _ HP Hc PE (conj R0 Hr) Hf).
Qed.

(* when |C| <= si sj (Cauchy-Schwarz) the bound simplifies *)
Definition pearson_bound (Ec relP P : R) : R := 2 * (Ec / P + relP) * (1 + u64) + u64 + eta64.

Lemma pearson_bound_simpl (C P Ec relP : R) : 0 < P -> Rabs C <= P -> 0 <= Ec -> 0 <= relP ->
  2 * (Ec + Rabs C * relP) / P * (1 + u64) + Rabs (C / P) * u64 + eta64 <= pearson_bound Ec relP P.
Proof.
  intros HP HC HE HR. unfold pearson_bound. pose proof u64_pos as Hu.
  assert (IP : 0 < / P) by (apply Rinv_0_lt_compat; exact HP).
  assert (EP : P * / P = 1) by (apply Rinv_r; lra).
  assert (Q : Rabs C * / P <= 1).
  { apply Rmult_le_reg_r with P; [exact HP|]. rewrite Rmult_assoc, (Rmult_comm (/ P)), EP. lra. }
  assert (Q0 : 0 <= Rabs C * / P) by (apply Rmult_le_pos; [apply Rabs_pos | lra]).
  assert (A1 : Rabs (C / P) = Rabs C * / P).
  { unfold Rdiv. rewrite Rabs_mult, (Rabs_pos_eq (/ P)) by lra. reflexivity. }
  rewrite A1.
  assert (A2 : 2 * (Ec + Rabs C * relP) / P = 2 * (Ec / P + Rabs C * / P * relP)) by (field; lra).
  rewrite A2.
  assert (A3 : Rabs C * / P * relP <= 1 * relP) by (apply Rmult_le_compat_r; lra).
  assert (A4 : 2 * (Ec / P + Rabs C * / P * relP) * (1 + u64) <= 2 * (Ec / P + relP) * (1 + u64)).
  { apply Rmult_le_compat_r; [lra|]. lra. }
  nra.
Qed.

(* ------------------------------------------------------------------ *)
(* 3. Exact quantities; Cauchy-Schwarz                                  *)
(* ------------------------------------------------------------------ *)
(* population standard deviation and Pearson's r of binary64 data, over the reals *)
Definition sigmaR (x : list F64) : R := sqrt (ssR x / INR (length x)).
Definition rhoR (x y : list F64) : R := cxy x y / INR (length x) / (sigmaR x * sigmaR y).

Lemma CovR_Rsum_bridge (l : list R) : CovR.Rsum l = Rsum l.
Proof.
  induction l as [|a l IH]; [reflexivity|].
  change (a + CovR.Rsum l = a + Rsum l). rewrite IH. reflexivity.
Qed.

Lemma cxy_cauchy_schwarz (x y : list F64) : length x = length y ->
  cxy x y * cxy x y <= ssR x * ssR y.
Proof.
  intros HL.
  set (a := map (fun v : F64 => B2R v - meanR x) x).
  set (b := map (fun v : F64 => B2R v - meanR y) y).
  assert (Hab : length a = length b) by (unfold a, b; rewrite !map_length; exact HL).
  pose proof (CovR.cauchy_schwarz a b Hab) as CS. rewrite !CovR_Rsum_bridge in CS.
  assert (E1 : Rsum (map (fun ab : R * R => fst ab * snd ab) (combine a b)) = cxy x y).
  { unfold a, b, cxy. rewrite combine_map_map', map_map. reflexivity. }
  assert (E2 : Rsum (map (fun t : R => t * t) a) = ssR x).
  { unfold a, ssR, ssC. rewrite map_map. reflexivity. }
  assert (E3 : Rsum (map (fun t : R => t * t) b) = ssR y).
  { unfold b, ssR, ssC. rewrite map_map. reflexivity. }
  assert (CS' : Rsum (map (fun ab : R * R => fst ab * snd ab) (combine a b)) ^ 2
                <= Rsum (map (fun t : R => t * t) a) * Rsum (map (fun t : R => t * t) b)) by exact CS.
  rewrite E1, E2, E3 in CS'. lra.
Qed.

Lemma sigmaR_pos (x : list F64) : (1 <= length x)%nat -> 0 < ssR x -> 0 < sigmaR x.
Proof.
  intros Hn HS. unfold sigmaR. apply sqrt_lt_R0. apply Rdiv_lt_0_compat; [exact HS | apply lt_0_INR; lia].
Qed.

Lemma sigmaR_sq (x : list F64) : (1 <= length x)%nat -> sigmaR x * sigmaR x = ssR x / INR (length x).
Proof.
  intros Hn. unfold sigmaR. apply sqrt_sqrt. unfold Rdiv. apply Rmult_le_pos; [apply ssR_nonneg|].
  apply Rlt_le, Rinv_0_lt_compat, lt_0_INR. lia.
Qed.

(* |cov| <= sigma_i sigma_j *)
Lemma cov_le_sigmas (x y : list F64) : length x = length y -> (1 <= length x)%nat ->
  Rabs (cxy x y / INR (length x)) <= sigmaR x * sigmaR y.
Proof.
  intros HL Hn.
  assert (Hk : 0 < INR (length x)) by (apply lt_0_INR; lia).
  pose proof (cxy_cauchy_schwarz x y HL) as CS.
  pose proof (sigmaR_sq x Hn) as Sx. pose proof (sigmaR_sq y ltac:(lia)) as Sy. rewrite <- HL in Sy.
  assert (Px : 0 <= sigmaR x) by apply sqrt_pos. assert (Py : 0 <= sigmaR y) by apply sqrt_pos.
  set (P := sigmaR x * sigmaR y) in *. set (C := cxy x y / INR (length x)).
  assert (HP : 0 <= P) by (apply Rmult_le_pos; assumption).
  assert (SQ : C * C <= P * P).
  { replace (P * P) with ((sigmaR x * sigmaR x) * (sigmaR y * sigmaR y)) by (unfold P; ring).
    rewrite Sx, Sy. unfold C.
    replace (cxy x y / INR (length x) * (cxy x y / INR (length x)))
      with (cxy x y * cxy x y * (/ INR (length x) * / INR (length x))) by (field; lra).
    replace (ssR x / INR (length x) * (ssR y / INR (length x)))
      with (ssR x * ssR y * (/ INR (length x) * / INR (length x))) by (field; lra).
    apply Rmult_le_compat_r; [|exact CS].
    assert (0 < / INR (length x)) by (apply Rinv_0_lt_compat; exact Hk). nra. }
  rewrite <- (sqrt_Rsqr_abs C), <- (sqrt_Rsqr P HP). apply sqrt_le_1_alt. unfold Rsqr. exact SQ.
Qed.

Theorem rhoR_range (x y : list F64) : length x = length y -> (1 <= length x)%nat ->
  0 < ssR x -> 0 < ssR y -> Rabs (rhoR x y) <= 1.
Proof.
  intros HL Hn Hx Hy. unfold rhoR.
  pose proof (sigmaR_pos x Hn Hx) as Px. pose proof (sigmaR_pos y ltac:(lia) Hy) as Py.
  assert (HP : 0 < sigmaR x * sigmaR y) by (apply Rmult_lt_0_compat; assumption).
  pose proof (cov_le_sigmas x y HL Hn) as B.
  unfold Rdiv at 1. rewrite Rabs_mult, (Rabs_pos_eq (/ _)) by (apply Rlt_le, Rinv_0_lt_compat; exact HP).
  apply Rmult_le_reg_r with (sigmaR x * sigmaR y); [exact HP|].
  rewrite Rmult_assoc, Rinv_l by lra. lra.
Qed.

Theorem rhoR_diag (x : list F64) : (1 <= length x)%nat -> 0 < ssR x -> rhoR x x = 1.
Proof.
  intros Hn Hx. unfold rhoR. rewrite cxy_diag, (sigmaR_sq x Hn).
  assert (Hk : 0 < INR (length x)) by (apply lt_0_INR; lia). field. split; lra.
Qed.

(* ------------------------------------------------------------------ *)
(* 4. The entry as coded                                               *)
(* ------------------------------------------------------------------ *)
(* the explicit error terms, functions of the data:
     Ec   error of the covariance entry   (Num/CovF64.v cov_bound with the means' errors mean_err)
     Es   error of a standard deviation   (Num/WelfordErrF64.v wStdB)                         *)
Definition pearson_Ec (h hm n : nat) (xi xj : list F64) : R :=
  cov_bound h n (mean_err hm n xi) (mean_err hm n xj) xi xj (INR n).
Definition pearson_Es (n : nat) (lo hi X : R) (x : list F64) : R := wStdB n (hi - lo) X (ssR x) (INR n).

Section Entry.
Variables (xi xj : list F64) (si sj v : F64) (h hm n : nat).
Variables (loi hii Xi loj hij Xj : R).
Hypotheses (Li : length xi = n) (Lj : length xj = n) (Hn1 : (1 <= n)%nat) (Hsmall : INR n * u64 <= / 64).
Hypotheses (Ri : in_range loi hii xi) (Ai1 : Rabs loi <= Xi) (Ai2 : Rabs hii <= Xi).
Hypotheses (Rj : in_range loj hij xj) (Aj1 : Rabs loj <= Xj) (Aj2 : Rabs hij <= Xj).
Hypotheses (Si : 0 < ssR xi) (Sj : 0 < ssR xj).
Hypotheses (Ti : sum_eval xi si hm) (Tj : sum_eval xj sj hm).
Let nf : F64 := f64_of_Z (Z.of_nat n).
Hypothesis Hdot : dot_eval (combine (dev xi (fdiv si nf)) (dev xj (fdiv sj nf))) v h.
(* the computed entries: covariance (ddof = 0), the two standard deviations, the quotient *)
Let cf : F64 := fdiv v (fsub nf fzero).
Let sif : F64 := welford_std xi fzero.
Let sjf : F64 := welford_std xj fzero.
Let rho_f : F64 := fdiv cf (fmul sif sjf).
Hypotheses (Fp : fin (fmul sif sjf) = true) (Frho : fin rho_f = true).

Let Ec : R := pearson_Ec h hm n xi xj.
Let Ei : R := pearson_Es n loi hii Xi xi.
Let Ej : R := pearson_Es n loj hij Xj xj.
Let relP : R := pearson_relP Ei Ej (sigmaR xi) (sigmaR xj).
Hypothesis HrelP : relP <= / 2.

Lemma entry_std_i : Rabs (B2R sif - sigmaR xi) <= Ei.
Proof.
  destruct (fmul_finite_args _ _ Fp) as [Fi _]. unfold sif in *.
  pose proof (fsqrt_finite_arg _ Fi) as Fv.
  pose proof (welford_std_error xi fzero loi hii Xi) as T. cbv zeta in T. rewrite Li, B2R_fzero, Rminus_0_r in T.
  specialize (T Hn1 Hsmall Ri Ai1 Ai2 eq_refl (lt_0_INR n ltac:(lia)) Si Fv).
  unfold Ei, pearson_Es, sigmaR. rewrite Li. exact T.
Qed.
Lemma entry_std_j : Rabs (B2R sjf - sigmaR xj) <= Ej.
Proof.
  destruct (fmul_finite_args _ _ Fp) as [_ Fj]. unfold sjf in *.
  pose proof (fsqrt_finite_arg _ Fj) as Fv.
  pose proof (welford_std_error xj fzero loj hij Xj) as T. cbv zeta in T. rewrite Lj, B2R_fzero, Rminus_0_r in T.
  specialize (T Hn1 Hsmall Rj Aj1 Aj2 eq_refl (lt_0_INR n ltac:(lia)) Sj Fv).
  unfold Ej, pearson_Es, sigmaR. rewrite Lj. exact T.
Qed.

Lemma entry_sigmas_pos : 0 < sigmaR xi /\ 0 < sigmaR xj.
Proof. split; apply sigmaR_pos; try assumption; lia. Qed.

Lemma entry_relP_nonneg : 0 <= relP.
Proof.
  destruct entry_sigmas_pos as [Pi Pj].
  apply pearson_relP_nonneg; try assumption.
  - pose proof entry_std_i. pose proof (Rabs_pos (B2R sif - sigmaR xi)). lra.
  - pose proof entry_std_j. pose proof (Rabs_pos (B2R sjf - sigmaR xj)). lra.
Qed.

(* the computed covariance entry is finite because the quotient is, and within its bound *)
Lemma entry_cov : fin cf = true /\ Rabs (B2R cf - cxy xi xj / INR n) <= Ec.
Proof.
  destruct entry_sigmas_pos as [Pi Pj].
  assert (HP : 0 < sigmaR xi * sigmaR xj) by (apply Rmult_lt_0_compat; assumption).
  pose proof (std_product_error sif sjf _ _ Ei Ej Pi Pj entry_std_i entry_std_j Fp) as PE. fold relP in PE.
  assert (Np : B2R (fmul sif sjf) <> 0).
  { intros Z. rewrite Z in PE. unfold Rminus in PE. rewrite Rplus_0_l, Rabs_Ropp, Rabs_pos_eq in PE by lra.
    assert (relP * (sigmaR xi * sigmaR xj) <= / 2 * (sigmaR xi * sigmaR xj)) by (apply Rmult_le_compat_r; lra).
    lra. }
  destruct (fdiv_value cf _ Np Frho) as [_ Fc]. split; [exact Fc|].
  pose proof (small_n53 n Hsmall) as Hn53.
  pose proof (cov_entry_error_f64_means xi xj si sj fzero v h hm n Li Lj Hn1 Hn53 Ti Tj) as T.
  cbv zeta in T. fold nf in T. rewrite B2R_fzero, Rminus_0_r in T.
  assert (NZ : INR n <> 0) by (apply not_0_INR; lia).
  exact (T Hdot NZ eq_refl Fc).
Qed.

(* HEADLINE: the computed entry against Pearson's r of the data *)
Theorem pearson_entry_error :
  Rabs (B2R rho_f - rhoR xi xj) <= pearson_bound Ec relP (sigmaR xi * sigmaR xj).
Proof.
  destruct entry_sigmas_pos as [Pi Pj]. destruct entry_cov as [Fc Bc].
  assert (HP : 0 < sigmaR xi * sigmaR xj) by (apply Rmult_lt_0_compat; assumption).
  pose proof (pearson_entry_generic cf sif sjf _ _ _ Ec Ei Ej Pi Pj Bc entry_std_i entry_std_j HrelP Fp Frho) as G.
  fold relP in G. unfold rhoR. rewrite Li.
  eapply Rle_trans; [exact G|].
  apply pearson_bound_simpl; [exact HP | | | exact entry_relP_nonneg].
  - pose proof (cov_le_sigmas xi xj ltac:(lia) ltac:(lia)) as B. rewrite Li in B. exact B.
  - pose proof (Rabs_pos (B2R cf - cxy xi xj / INR n)). lra.
Qed.

(* the computed entry is at most 1 + bound in magnitude *)
Corollary pearson_entry_range :
  Rabs (B2R rho_f) <= 1 + pearson_bound Ec relP (sigmaR xi * sigmaR xj).
Proof.
  pose proof pearson_entry_error as B.
  pose proof (rhoR_range xi xj ltac:(lia) ltac:(lia) Si Sj) as R1.
  replace (B2R rho_f) with ((B2R rho_f - rhoR xi xj) + rhoR xi xj) by ring.
  eapply Rle_trans; [apply Rabs_triang|]. lra.
Qed.
End Entry.

(* a diagonal entry is within the bound of 1 *)
Theorem pearson_diag_error (x : list F64) (s v : F64) (h hm n : nat) (lo hi X : R) :
  length x = n -> (1 <= n)%nat -> INR n * u64 <= / 64 ->
  in_range lo hi x -> Rabs lo <= X -> Rabs hi <= X -> 0 < ssR x ->
  sum_eval x s hm ->
  let nf := f64_of_Z (Z.of_nat n) in
  dot_eval (combine (dev x (fdiv s nf)) (dev x (fdiv s nf))) v h ->
  let sf := welford_std x fzero in
  let rho_f := fdiv (fdiv v (fsub nf fzero)) (fmul sf sf) in
  fin (fmul sf sf) = true -> fin rho_f = true ->
  let E := pearson_Es n lo hi X x in
  let relP := pearson_relP E E (sigmaR x) (sigmaR x) in
  relP <= / 2 ->
  Rabs (B2R rho_f - 1) <= pearson_bound (pearson_Ec h hm n x x) relP (sigmaR x * sigmaR x).
Proof.
  intros L Hn1 Hs Hr A1 A2 HS T nf Hd sf rho_f Fp Fr E relP HR.
  pose proof (pearson_entry_error x x s s v h hm n lo hi X lo hi X L L Hn1 Hs Hr A1 A2 Hr A1 A2 HS HS T T Hd Fp Fr HR) as B.
  rewrite (rhoR_diag x ltac:(lia) HS) in B. exact B.
Qed.

(* ------------------------------------------------------------------ *)
(* 5. The executable matrix model                                      *)
(* ------------------------------------------------------------------ *)
(* pearson_correlation with ndarray's std_axis: Num/Cov.v's [pearson] with [std0] (a two-pass
   formula) replaced by the Welford lane kernel that ndarray actually runs *)
Definition pearson_welford (O : ops F64) (sum_o : list F64 -> F64) (rows : list (list F64)) : list (list F64) :=
  let c := cov O sum_o rows (o_zero O) in
  let sd := map (fun r => welford_std r fzero) rows in
  map (fun ci_si => map (fun cij_sj => o_div O (fst cij_sj) (o_mul O (snd ci_si) (snd cij_sj)))
                        (combine (fst ci_si) sd))
      (combine c sd).

Lemma nth_map_combine {A B C} (f : A * B -> C) (a : list A) (b : list B) (i : nat) (da : A) (db : B) (dc : C) :
  (i < length a)%nat -> length a = length b ->
  nth i (map f (combine a b)) dc = f (nth i a da, nth i b db).
Proof.
  intros Hi HL.
  rewrite (nth_map_in f (combine a b) i (da, db) dc) by (rewrite combine_length, <- HL, Nat.min_id; exact Hi).
  rewrite combine_nth by exact HL. reflexivity.
Qed.

Section PModel.
Variables lt et : list (Z * Z).
Let O := f64_ops lt et.
Variable sum_o : list F64 -> F64.

Lemma cov_shape (rows : list (list F64)) (ddof : F64) :
  length (cov O sum_o rows ddof) = length rows /\
  forall i, (i < length rows)%nat -> length (nth i (cov O sum_o rows ddof) []) = length rows.
Proof.
  unfold cov. rewrite !map_length. split; [reflexivity|]. intros i Hi.
  rewrite (nth_map_in _ (map (denoise O sum_o) rows) i [] []) by (rewrite map_length; exact Hi).
  rewrite !map_length. reflexivity.
Qed.

Lemma pearson_welford_entry (rows : list (list F64)) (i j : nat) :
  (i < length rows)%nat -> (j < length rows)%nat ->
  nth j (nth i (pearson_welford O sum_o rows) []) fzero
  = fdiv (nth j (nth i (cov O sum_o rows fzero) []) fzero)
         (fmul (welford_std (nth i rows []) fzero) (welford_std (nth j rows []) fzero)).
Proof.
  intros Hi Hj. unfold pearson_welford.
  destruct (cov_shape rows fzero) as [L1 L2].
  change (o_zero O) with fzero.
  set (c := cov O sum_o rows fzero) in *.
  set (sd := map (fun r => welford_std r fzero) rows).
  assert (Lsd : length sd = length rows) by (unfold sd; apply map_length).
  rewrite (nth_map_combine _ c sd i [] fzero []) by (rewrite ?L1, ?Lsd; lia).
  cbn [fst snd].
  rewrite (nth_map_combine _ (nth i c []) sd j fzero fzero fzero) by (rewrite ?(L2 i Hi), ?Lsd; lia).
  cbn [fst snd]. unfold sd.
  rewrite (nth_map_in _ rows i [] fzero) by exact Hi.
  rewrite (nth_map_in _ rows j [] fzero) by exact Hj.
  reflexivity.
Qed.

Variable hf : nat -> nat.
Hypothesis sum_o_tree : forall l, sum_eval l (sum_o l) (hf (length l)).

(* HEADLINE for the model: entry (i, j) of pearson_welford against Pearson's r of rows i and j *)
Theorem pearson_model_entry_error (rows : list (list F64)) (n i j : nat)
    (loi hii Xi loj hij Xj : R) :
  Forall (fun r => length r = n) rows -> (i < length rows)%nat -> (j < length rows)%nat ->
  (1 <= n)%nat -> INR n * u64 <= / 64 ->
  let xi := nth i rows [] in let xj := nth j rows [] in
  in_range loi hii xi -> Rabs loi <= Xi -> Rabs hii <= Xi ->
  in_range loj hij xj -> Rabs loj <= Xj -> Rabs hij <= Xj ->
  0 < ssR xi -> 0 < ssR xj ->
  let rho_f := nth j (nth i (pearson_welford O sum_o rows) []) fzero in
  fin (fmul (welford_std xi fzero) (welford_std xj fzero)) = true -> fin rho_f = true ->
  let relP := pearson_relP (pearson_Es n loi hii Xi xi) (pearson_Es n loj hij Xj xj) (sigmaR xi) (sigmaR xj) in
  relP <= / 2 ->
  Rabs (B2R rho_f - rhoR xi xj)
    <= pearson_bound (pearson_Ec (hf n) (hf n) n xi xj) relP (sigmaR xi * sigmaR xj).
Proof.
  intros HR Hi Hj Hn1 Hs xi xj Ri A1 A2 Rj A3 A4 Si Sj rho_f Fp Fr relP HrelP.
  assert (Li : length xi = n).
  { unfold xi. rewrite Forall_forall in HR. apply HR. apply nth_In. exact Hi. }
  assert (Lj : length xj = n).
  { unfold xj. rewrite Forall_forall in HR. apply HR. apply nth_In. exact Hj. }
  unfold rho_f in *. rewrite (pearson_welford_entry rows i j Hi Hj) in *.
  pose proof (model_dot_eval lt et sum_o hf sum_o_tree (denoise O sum_o xi) (denoise O sum_o xj)) as DE.
  unfold O in *.
  rewrite (cov_model_entry lt et sum_o rows fzero n i j HR Hi Hj) in *. fold xi xj in Fr |- *.
  rewrite !denoise_dev, !row_mean_unfold, Li, Lj in *.
  assert (HL : length (combine (dev xi (fdiv (sum_o xi) (f64_of_Z (Z.of_nat n))))
                               (dev xj (fdiv (sum_o xj) (f64_of_Z (Z.of_nat n))))) = n).
  { unfold dev. rewrite combine_length, !map_length, Li, Lj. apply Nat.min_id. }
  rewrite HL in DE.
  pose proof (sum_o_tree xi) as Ti. rewrite Li in Ti.
  pose proof (sum_o_tree xj) as Tj. rewrite Lj in Tj.
  exact (pearson_entry_error xi xj (sum_o xi) (sum_o xj) _ (hf n) (hf n) n loi hii Xi loj hij Xj
           Li Lj Hn1 Hs Ri A1 A2 Rj A3 A4 Si Sj Ti Tj DE Fp Fr HrelP).
Qed.
End PModel.

Print Assumptions pearson_entry_generic.
Print Assumptions pearson_entry_error.
Print Assumptions pearson_entry_range.
Print Assumptions pearson_diag_error.
Print Assumptions pearson_model_entry_error.
