(* A closed form of the bound of Num/CentralMomentF64.v:

     |fl(central_moment p) - mu_p|  <=  C1 * A_p  +  C2 * mdelta * A_(p-1)  +  C3 * eta64 * (1 + A_p)

   with A_k = (1/n) sum (|x_i - xbar| + mdelta)^k,  mdelta = g64(n+14) (sum |x_i|)/n + eta64  the bound on
   the error of the computed mean, and C1, C2, C3 explicit functions of n, p and of a constant th
   with  kappa <= th * A_1  (th = 4 always works when g64(n+16) <= 1/4):
     C1 = O((n + p) u) * p * 2^(p+1) * th^p      (sum of g64's: first order in the unit roundoff)
     C2 = p + p * 2^(p+1) * th^p * (1 + G)       (multiplies the conditioning term mdelta * A_(p-1))
     C3 = O(p * 2^(p+1) * th^p)                  (multiplies the underflow unit eta64).
   The proof uses Chebyshev's sum inequality  A_j A_k <= A_(j+k)  and  A_j <= 1 + A_p (j <= p). *)
From Flocq Require Import Core BinarySingleNaN Plus_error Relative.
Require Import Reals Lra Lia ZArith Psatz Bool List Arith Permutation.
From NS Require Import Num.F64 Num.Ops Num.F64Inst Num.Kernels Num.SumBridge Num.SumF64
  Quantile.IndexProofs Quantile.InterpF64 Num.DeviationF64 Num.MeansF64 Num.CovF64 Num.PowiF64
  Num.MomentsErrF64 Num.HornerF64 Num.CentralMomentF64.
Import ListNotations.
Open Scope R_scope.

(* ------------------------------------------------------------------ *)
(* 1. Chebyshev's sum inequality for powers; A_j <= 1 + A_p             *)
(* ------------------------------------------------------------------ *)
Lemma pow_cross (x a : R) j k : 0 <= x -> 0 <= a ->
  x ^ j * a ^ k + x ^ k * a ^ j <= x ^ (j + k) + a ^ (j + k).
Proof.
  intros Hx Ha. rewrite !pow_add.
  assert (Q : 0 <= (x ^ j - a ^ j) * (x ^ k - a ^ k)).
  { destruct (Rle_or_lt x a) as [H|H].
    - assert (x ^ j <= a ^ j) by (apply pow_incr; lra). assert (x ^ k <= a ^ k) by (apply pow_incr; lra).
      replace ((x ^ j - a ^ j) * (x ^ k - a ^ k)) with ((a ^ j - x ^ j) * (a ^ k - x ^ k)) by ring.
      apply Rmult_le_pos; lra.
    - assert (a ^ j <= x ^ j) by (apply pow_incr; lra). assert (a ^ k <= x ^ k) by (apply pow_incr; lra).
      apply Rmult_le_pos; lra. }
  lra.
Qed.

Lemma chebyshev_inner {T} (f : T -> R) (x : R) j k (l : list T) : 0 <= x -> (forall a, 0 <= f a) ->
  x ^ j * Rsum (map (fun a => f a ^ k) l) + x ^ k * Rsum (map (fun a => f a ^ j) l)
  <= INR (length l) * x ^ (j + k) + Rsum (map (fun a => f a ^ (j + k)) l).
Proof.
  intros Hx Hf. induction l as [|a l IH]; cbn [map length]; rewrite ?Rsum_nil, ?Rsum_cons.
  - simpl. lra.
  - change (length (a :: l)) with (S (length l)). rewrite S_INR.
    pose proof (pow_cross x (f a) j k Hx (Hf a)). lra.
Qed.

Lemma chebyshev_pow {T} (f : T -> R) j k (l : list T) : (forall a, 0 <= f a) ->
  Rsum (map (fun a => f a ^ j) l) * Rsum (map (fun a => f a ^ k) l)
  <= INR (length l) * Rsum (map (fun a => f a ^ (j + k)) l).
Proof.
  intros Hf. induction l as [|a l IH]; cbn [map length]; rewrite ?Rsum_nil, ?Rsum_cons.
  - simpl. lra.
  - change (length (a :: l)) with (S (length l)). rewrite S_INR.
    pose proof (chebyshev_inner f (f a) j k l (Hf a) Hf) as C.
    rewrite (pow_add (f a) j k) in *. nra.
Qed.

Lemma pow_le_1p (a : R) j p : 0 <= a -> (j <= p)%nat -> a ^ j <= 1 + a ^ p.
Proof.
  intros Ha Hj. destruct (Rle_or_lt a 1) as [H|H].
  - assert (a ^ j <= 1) by (rewrite <- (pow1 j); apply pow_incr; lra).
    assert (0 <= a ^ p) by (apply pow_le; exact Ha). lra.
  - assert (a ^ j <= a ^ p) by (apply Rle_pow; [lra|exact Hj]). lra.
Qed.

Section AmomProps.
Variable xs : list F64.
Hypothesis Hn : (1 <= length xs)%nat.

Lemma Amom_submult j k : Amom xs j * Amom xs k <= Amom xs (j + k).
Proof.
  unfold Amom. set (N := INR (length xs)). assert (HN : 0 < N) by (apply lt_0_INR; exact Hn).
  pose proof (chebyshev_pow (sdev xs) j k xs (fun a => Rlt_le _ _ (sdev_pos xs a))) as C. fold N in C.
  assert (iN : 0 < / N) by (apply Rinv_0_lt_compat; exact HN).
  unfold Rdiv.
  replace (Rsum (map (fun x => sdev xs x ^ j) xs) * / N * (Rsum (map (fun x => sdev xs x ^ k) xs) * / N))
    with ((Rsum (map (fun x => sdev xs x ^ j) xs) * Rsum (map (fun x => sdev xs x ^ k) xs)) * (/ N * / N)) by ring.
  replace (Rsum (map (fun x => sdev xs x ^ (j + k)) xs) * / N)
    with ((N * Rsum (map (fun x => sdev xs x ^ (j + k)) xs)) * (/ N * / N)) by (field; lra).
  apply Rmult_le_compat_r; [apply Rlt_le, Rmult_lt_0_compat; exact iN|exact C].
Qed.

Lemma Amom_le_1p j p : (j <= p)%nat -> Amom xs j <= 1 + Amom xs p.
Proof.
  intros Hj. unfold Amom. set (N := INR (length xs)). assert (HN : 0 < N) by (apply lt_0_INR; exact Hn).
  assert (iN : 0 < / N) by (apply Rinv_0_lt_compat; exact HN).
  replace (1 + Rsum (map (fun x => sdev xs x ^ p) xs) / N)
    with (Rsum (map (fun x => 1 + sdev xs x ^ p) xs) / N).
  - unfold Rdiv. apply Rmult_le_compat_r; [lra|]. apply Rsum_map_le. intros x.
    apply pow_le_1p; [apply Rlt_le, sdev_pos|exact Hj].
  - rewrite (Rsum_map_plus (fun _ => 1) (fun x => sdev xs x ^ p)), Rsum_const. fold N. field. lra.
Qed.

Lemma mdelta_le_Amom1 : mdelta xs <= Amom xs 1.
Proof.
  unfold Amom. set (N := INR (length xs)). assert (HN : 0 < N) by (apply lt_0_INR; exact Hn).
  assert (iN : 0 < / N) by (apply Rinv_0_lt_compat; exact HN).
  replace (mdelta xs) with (Rsum (map (fun _ : F64 => mdelta xs) xs) / N)
    by (rewrite Rsum_const; fold N; field; lra).
  unfold Rdiv. apply Rmult_le_compat_r; [lra|]. apply Rsum_map_le. intros x.
  rewrite pow_1. apply sdev_ge_delta.
Qed.

Lemma eta_le_mdelta : eta64 <= mdelta xs.
Proof.
  unfold mdelta. pose proof (g64_nonneg (length xs + 14)). pose proof (Rasum_nonneg (map B2R xs)).
  assert (0 <= g64 (length xs + 14) * Rasum (map B2R xs) / INR (length xs)); [|lra].
  unfold Rdiv. apply Rmult_le_pos; [apply Rmult_le_pos; assumption|].
  apply Rlt_le, Rinv_0_lt_compat, lt_0_INR. exact Hn.
Qed.
End AmomProps.

(* ------------------------------------------------------------------ *)
(* 2. Horner as a sum                                                   *)
(* ------------------------------------------------------------------ *)
Lemma hornerR_as_sum (f : nat -> R) x : forall len s,
  hornerR (map f (seq s len)) x = Rsum (map (fun i => f (s + i)%nat * x ^ i) (seq 0 len)).
Proof.
  induction len as [|len IH]; intros s; cbn [seq map]; [reflexivity|].
  rewrite hornerR_cons, IH, Rsum_cons, <- seq_shift, map_map, <- Rsum_map_scal.
  f_equal; [rewrite Nat.add_0_r; simpl; ring|].
  apply Rsum_map_ext. intros i. replace (S s + i)%nat with (s + S i)%nat by lia. simpl. ring.
Qed.

Lemma repeat_map_seq {T} (c : T) len : forall s, repeat c len = map (fun _ => c) (seq s len).
Proof. induction len as [|len IH]; intros s; cbn [repeat seq map]; [reflexivity|]. f_equal. apply IH. Qed.

Lemma Rsum_seq_le (t : nat -> R) (B : R) len : (forall i, (i < len)%nat -> t i <= B) ->
  Rsum (map t (seq 0 len)) <= INR len * B.
Proof.
  intros H. rewrite <- (seq_length len 0) at 2. rewrite <- (Rsum_const B (seq 0 len)).
  apply Rsum_map_le_in. intros i Hi. apply H. apply in_seq in Hi. lia.
Qed.

Lemma g64_1p_mono a b : (a <= b)%nat -> 1 + g64 a <= 1 + g64 b.
Proof. intros H. pose proof (g64_mono a b H). lra. Qed.

Lemma Rmult_le_compat4 (a b c d : R) : 0 <= a -> 0 <= c -> a <= b -> c <= d -> a * c <= b * d.
Proof. intros. apply Rmult_le_compat; assumption. Qed.

(* ------------------------------------------------------------------ *)
(* 3. The closed form, for an abstract sub-multiplicative sequence A    *)
(* ------------------------------------------------------------------ *)
Definition cmG (n p : nat) : R := g64 (n + 2 * p + 15).
Definition cmK (p : nat) (th : R) : R := 2 ^ S p * th ^ p.
Definition cmr1 (n p : nat) : R := 1 + cmG n p.
Definition cmr2 (n p : nat) : R := (INR p * (1 + cmG n p) + 1) * (1 + u64) + 1.
Definition cmC1 (n p : nat) (th : R) : R :=
  g64 p + g64 (n + 2 * p + 14) + INR p * cmK p th * cmr1 n p * g64 (n + 16)
  + g64 (2 * S p) * (INR (S p) * cmK p th * cmr1 n p).
Definition cmC2 (n p : nat) (th : R) : R := INR p + INR p * cmK p th * cmr1 n p.
Definition cmC3 (n p : nat) (th : R) : R :=
  (INR p * (1 + cmG n p) + 1)
  + INR p * cmK p th * (cmr1 n p * (2 + cmG n p) + cmr2 n p)
  + g64 (2 * S p) * (INR (S p) * cmK p th * cmr2 n p)
  + INR (S p) * ((1 + g64 (2 * p + 1)) * th ^ p).

Section Simplify.
Variables (q n p : nat) (A : nat -> R) (dl th : R).
Hypothesis Hp : (1 <= p)%nat.
Hypothesis Hq : (q <= S p)%nat.
Hypothesis A_nn : forall k, 0 <= A k.
Hypothesis A_0 : A 0%nat = 1.
Hypothesis A_sub : forall j k, A j * A k <= A (j + k)%nat.
Hypothesis A_W : forall j, (j <= p)%nat -> A j <= 1 + A p.
Hypothesis dl_nn : 0 <= dl.
Hypothesis Hth : 1 <= th.
Hypothesis Hkp : kappa n A dl <= th * A 1%nat.

Let kp := kappa n A dl.
Let W := 1 + A p.
Let G := cmG n p.
Let Cm := 2 ^ S p.
Let K := cmK p th.
Let r1 := cmr1 n p.
Let r2 := cmr2 n p.

Lemma sm_kp_nn : 0 <= kp.
Proof.
  unfold kp, kappa. pose proof (Eraw_nonneg n 1 A (A_nn 1%nat)). pose proof u64_pos.
  assert (0 <= u64 * A 1%nat) by (apply Rmult_le_pos; [lra|apply A_nn]). lra.
Qed.
Lemma sm_W_pos : 1 <= W. Proof. unfold W. pose proof (A_nn p). lra. Qed.
Lemma sm_G_nn : 0 <= G. Proof. apply g64_nonneg. Qed.
Lemma sm_Cm_ge1 : 1 <= Cm. Proof. unfold Cm. apply pow_R1_Rle. lra. Qed.
Lemma sm_r2_nn : 1 <= r2.
Proof.
  unfold r2, cmr2. fold G. pose proof sm_G_nn. pose proof u64_pos. pose proof (pos_INR p).
  assert (0 <= (INR p * (1 + G) + 1) * (1 + u64)); [|lra].
  apply Rmult_le_pos; [|lra]. assert (0 <= INR p * (1 + G)) by (apply Rmult_le_pos; lra). lra.
Qed.

Lemma sm_A_pow k i : A k * A 1%nat ^ i <= A (k + i)%nat.
Proof.
  induction i as [|i IH].
  - rewrite Nat.add_0_r. simpl. lra.
  - replace (k + S i)%nat with ((k + i) + 1)%nat by lia. cbn [pow].
    replace (A k * (A 1%nat * A 1%nat ^ i)) with ((A k * A 1%nat ^ i) * A 1%nat) by ring.
    eapply Rle_trans; [|apply A_sub]. apply Rmult_le_compat_r; [apply A_nn|exact IH].
Qed.
Lemma sm_A1_pow_W i : (i <= p)%nat -> A 1%nat ^ i <= W.
Proof.
  intros Hi. pose proof (sm_A_pow 0 i) as Q. rewrite A_0, Rmult_1_l in Q. cbn [plus] in Q.
  pose proof (A_W i Hi). unfold W. lra.
Qed.
Lemma sm_A1_pow_nn i : 0 <= A 1%nat ^ i. Proof. apply pow_le, A_nn. Qed.
Lemma sm_kp_pow i : 0 <= kp ^ i <= th ^ i * A 1%nat ^ i.
Proof.
  split; [apply pow_le, sm_kp_nn|]. rewrite <- Rpow_mult_distr. apply pow_incr.
  split; [apply sm_kp_nn|exact Hkp].
Qed.
Lemma sm_th_pow i : (i <= p)%nat -> 0 <= th ^ i <= th ^ p.
Proof. intros Hi. split; [apply pow_le; lra|apply Rle_pow; assumption]. Qed.

Lemma sm_cbd_le j : (j <= p)%nat -> cbdq q n p A j <= Cm * (r1 * A (p - j)%nat + r2 * eta64).
Proof.
  intros Hj. unfold cbdq. set (k := (p - j)%nat). assert (Hk : (k <= p)%nat) by (unfold k; lia).
  pose proof u64_pos as Hu. pose proof eta64_pos as He. pose proof sm_G_nn as HG. pose proof sm_Cm_ge1 as HC.
  pose proof (A_nn k) as Ak.
  assert (HB : 0 <= INR (binom q j) <= Cm).
  { split; [apply pos_INR|]. apply Rle_trans with (2 ^ q); [|unfold Cm; apply Rle_pow; [lra|exact Hq]].
    replace 2 with (INR 2) by (simpl; lra). rewrite <- pow_INR. apply le_INR, binom_le_pow. }
  assert (E1 : (1 + g64 k) * (1 + g64 (n + k + 14)) * (1 + u64) <= r1).
  { rewrite g64_add, <- g64_S'. unfold r1, cmr1, cmG. apply g64_1p_mono. lia. }
  assert (E2 : (INR k * (1 + g64 (n + k + 14)) + 1) * (1 + u64) <= r2 - 1).
  { unfold r2, cmr2. fold G. replace ((INR p * (1 + G) + 1) * (1 + u64) + 1 - 1) with ((INR p * (1 + G) + 1) * (1 + u64)) by ring.
    apply Rmult_le_compat_r; [lra|]. apply Rplus_le_compat_r.
    apply Rmult_le_compat4; [apply pos_INR|pose proof (g64_nonneg (n + k + 14)); lra|apply le_INR; exact Hk|].
    unfold G, cmG. apply g64_1p_mono. lia. }
  assert (X : 0 <= Rbd n k A * (1 + u64) <= r1 * A k + (r2 - 1) * eta64).
  { split; [apply Rmult_le_pos; [apply Rbd_nonneg; exact Ak|lra]|].
    unfold Rbd, Eraw.
    replace (((1 + g64 k) * A k + (g64 (n + k + 14) * ((1 + g64 k) * A k)
              + (INR k * (1 + g64 (n + k + 14)) + 1) * eta64)) * (1 + u64))
      with (((1 + g64 k) * (1 + g64 (n + k + 14)) * (1 + u64)) * A k
            + ((INR k * (1 + g64 (n + k + 14)) + 1) * (1 + u64)) * eta64) by ring.
    apply Rplus_le_compat; apply Rmult_le_compat_r; lra. }
  rewrite Rmult_assoc.
  assert (Y : INR (binom q j) * (Rbd n k A * (1 + u64)) <= Cm * (r1 * A k + (r2 - 1) * eta64)).
  { apply Rmult_le_compat4; lra. }
  assert (Z : eta64 <= Cm * eta64) by nra.
  lra.
Qed.

Lemma sm_X_nn k : 0 <= r1 * A k + r2 * eta64.
Proof.
  pose proof sm_G_nn. pose proof sm_r2_nn. pose proof eta64_pos. pose proof (A_nn k).
  unfold r1, cmr1. fold G. assert (0 <= (1 + G) * A k) by (apply Rmult_le_pos; lra).
  assert (0 <= r2 * eta64) by (apply Rmult_le_pos; lra). lra.
Qed.

Section Gen.
Variable cfam : nat -> R.
Variables s1 s2 : R.
Hypothesis s1_nn : 0 <= s1.
Hypothesis s2_nn : 0 <= s2.
Hypothesis cfam_le : forall j, (j <= p)%nat -> 0 <= cfam j <= Cm * (s1 * A (p - j)%nat + s2 * eta64).

Lemma gen_X_nn k : 0 <= s1 * A k + s2 * eta64.
Proof.
  pose proof eta64_pos. pose proof (A_nn k).
  assert (0 <= s1 * A k) by (apply Rmult_le_pos; assumption).
  assert (0 <= s2 * eta64) by (apply Rmult_le_pos; lra). lra.
Qed.

(* the full polynomial *)
Lemma gen_sumD : hornerR (map (cfam) (seq 0 (S p))) kp <= INR (S p) * (K * (s1 * A p + s2 * eta64 * W)).
Proof.
  rewrite hornerR_as_sum. apply Rsum_seq_le. intros i Hi. cbn [plus].
  assert (Hi' : (i <= p)%nat) by lia.
  pose proof (proj2 (cfam_le i Hi')) as C. pose proof (sm_kp_pow i) as P. pose proof (sm_th_pow i Hi') as T.
  pose proof (gen_X_nn (p - i)%nat) as X0. pose proof sm_Cm_ge1 as HC.
  pose proof (sm_A1_pow_nn i) as A1n. pose proof (sm_A1_pow_W i Hi') as A1W.
  pose proof s2_nn as R2. pose proof eta64_pos as He. pose proof sm_G_nn as HG.
  assert (S1 : cfam i * kp ^ i <= (Cm * (s1 * A (p - i)%nat + s2 * eta64)) * (th ^ i * A 1%nat ^ i)).
  { apply Rmult_le_compat4; [exact (proj1 (cfam_le i Hi'))|lra|exact C|lra]. }
  pose proof (sm_A_pow (p - i)%nat i) as AP. replace (p - i + i)%nat with p in AP by lia.
  assert (S2 : (s1 * A (p - i)%nat + s2 * eta64) * A 1%nat ^ i <= s1 * A p + s2 * eta64 * W).
  { replace ((s1 * A (p - i)%nat + s2 * eta64) * A 1%nat ^ i)
      with (s1 * (A (p - i)%nat * A 1%nat ^ i) + (s2 * eta64) * A 1%nat ^ i) by ring.
    apply Rplus_le_compat.
    - apply Rmult_le_compat_l; [exact s1_nn|exact AP].
    - apply Rmult_le_compat_l; [apply Rmult_le_pos; lra|exact A1W]. }
  assert (S20 : 0 <= (s1 * A (p - i)%nat + s2 * eta64) * A 1%nat ^ i) by (apply Rmult_le_pos; assumption).
  assert (S3 : Cm * th ^ i <= K).
  { unfold K, cmK. fold Cm. apply Rmult_le_compat_l; lra. }
  replace ((Cm * (s1 * A (p - i)%nat + s2 * eta64)) * (th ^ i * A 1%nat ^ i))
    with ((Cm * th ^ i) * ((s1 * A (p - i)%nat + s2 * eta64) * A 1%nat ^ i)) in S1 by ring.
  eapply Rle_trans; [exact S1|]. apply Rmult_le_compat4; [apply Rmult_le_pos; lra|exact S20|exact S3|exact S2].
Qed.

(* the correction polynomial *)
Lemma gen_sumC : kp * hornerR (map (cfam) (seq 1 p)) kp
  <= INR p * (K * (s1 * (kp * A (p - 1)%nat) + s2 * eta64 * W)).
Proof.
  rewrite hornerR_as_sum, <- Rsum_map_scal. apply Rsum_seq_le. intros i Hi.
  assert (Hi' : (i <= p)%nat) by lia. assert (Hi1 : (1 + i <= p)%nat) by lia.
  pose proof (proj2 (cfam_le (1 + i)%nat Hi1)) as C. pose proof (sm_kp_pow i) as P. pose proof (sm_th_pow (S i) Hi1) as T.
  pose proof (gen_X_nn (p - (1 + i))%nat) as X0. pose proof sm_Cm_ge1 as HC.
  pose proof (sm_A1_pow_nn i) as A1n. pose proof (sm_A1_pow_W (S i) Hi1) as A1W.
  pose proof s2_nn as R2. pose proof eta64_pos as He. pose proof sm_G_nn as HG. pose proof sm_kp_nn as KP.
  assert (thi : 0 <= th ^ i) by (apply pow_le; lra).
  assert (S1 : cfam (1 + i) * kp ^ i <= (Cm * (s1 * A (p - (1 + i))%nat + s2 * eta64)) * (th ^ i * A 1%nat ^ i)).
  { apply Rmult_le_compat4; [exact (proj1 (cfam_le (1 + i)%nat Hi1))|lra|exact C|lra]. }
  assert (S1' : kp * (cfam (1 + i) * kp ^ i)
                <= kp * ((Cm * (s1 * A (p - (1 + i))%nat + s2 * eta64)) * (th ^ i * A 1%nat ^ i))).
  { apply Rmult_le_compat_l; assumption. }
  pose proof (sm_A_pow (p - (1 + i))%nat i) as AP. replace (p - (1 + i) + i)%nat with (p - 1)%nat in AP by lia.
  assert (S2 : kp * ((s1 * A (p - (1 + i))%nat + s2 * eta64) * A 1%nat ^ i)
               <= th * (s1 * (kp * A (p - 1)%nat) + s2 * eta64 * W)).
  { replace (kp * ((s1 * A (p - (1 + i))%nat + s2 * eta64) * A 1%nat ^ i))
      with (s1 * (kp * (A (p - (1 + i))%nat * A 1%nat ^ i)) + (s2 * eta64) * (kp * A 1%nat ^ i)) by ring.
    replace (th * (s1 * (kp * A (p - 1)%nat) + s2 * eta64 * W))
      with (th * (s1 * (kp * A (p - 1)%nat)) + (s2 * eta64) * (th * W)) by ring.
    apply Rplus_le_compat.
    - assert (Q : s1 * (kp * (A (p - (1 + i))%nat * A 1%nat ^ i)) <= s1 * (kp * A (p - 1)%nat)).
      { apply Rmult_le_compat_l; [exact s1_nn|]. apply Rmult_le_compat_l; assumption. }
      assert (Q0 : 0 <= s1 * (kp * A (p - 1)%nat)).
      { apply Rmult_le_pos; [exact s1_nn|]. apply Rmult_le_pos; [exact KP|apply A_nn]. }
      nra.
    - apply Rmult_le_compat_l; [apply Rmult_le_pos; lra|].
      apply Rle_trans with ((th * A 1%nat) * A 1%nat ^ i).
      + apply Rmult_le_compat_r; [exact A1n|exact Hkp].
      + rewrite Rmult_assoc. apply Rmult_le_compat_l; [lra|]. exact A1W. }
  assert (S20 : 0 <= s1 * (kp * A (p - 1)%nat) + s2 * eta64 * W).
  { pose proof sm_W_pos. apply Rplus_le_le_0_compat.
    - apply Rmult_le_pos; [exact s1_nn|]. apply Rmult_le_pos; [exact KP|apply A_nn].
    - apply Rmult_le_pos; [apply Rmult_le_pos; lra|lra]. }
  assert (S3 : Cm * th ^ i * th <= K).
  { unfold K, cmK. fold Cm. rewrite Rmult_assoc. apply Rmult_le_compat_l; [lra|].
    replace (th ^ i * th) with (th ^ S i) by (simpl; ring). lra. }
  cbn beta. eapply Rle_trans; [exact S1'|].
  replace (kp * ((Cm * (s1 * A (p - (1 + i))%nat + s2 * eta64)) * (th ^ i * A 1%nat ^ i)))
    with ((Cm * th ^ i) * (kp * ((s1 * A (p - (1 + i))%nat + s2 * eta64) * A 1%nat ^ i))) by ring.
  apply Rle_trans with ((Cm * th ^ i) * (th * (s1 * (kp * A (p - 1)%nat) + s2 * eta64 * W))).
  - apply Rmult_le_compat_l; [apply Rmult_le_pos; lra|exact S2].
  - rewrite <- Rmult_assoc. apply Rmult_le_compat_r; [exact S20|exact S3].
Qed.

End Gen.

Lemma sm_cfam_cbd : forall j, (j <= p)%nat -> 0 <= cbdq q n p A j <= Cm * (r1 * A (p - j)%nat + r2 * eta64).
Proof. intros j Hj. split; [apply cbdq_nonneg, A_nn|apply sm_cbd_le; exact Hj]. Qed.
Lemma sm_r1_nn : 0 <= r1. Proof. unfold r1, cmr1. pose proof sm_G_nn. fold G. lra. Qed.
Lemma sm_r2_nn0 : 0 <= r2. Proof. pose proof sm_r2_nn. lra. Qed.

Lemma sm_sumD : hornerR (map (cbdq q n p A) (seq 0 (S p))) kp <= INR (S p) * (K * (r1 * A p + r2 * eta64 * W)).
Proof. exact (gen_sumD (cbdq q n p A) r1 r2 sm_r1_nn sm_r2_nn0 sm_cfam_cbd). Qed.
Lemma sm_sumC : kp * hornerR (map (cbdq q n p A) (seq 1 p)) kp
  <= INR p * (K * (r1 * (kp * A (p - 1)%nat) + r2 * eta64 * W)).
Proof. exact (gen_sumC (cbdq q n p A) r1 r2 sm_r1_nn sm_r2_nn0 sm_cfam_cbd). Qed.

(* the underflow polynomial of Horner's rule *)
Lemma sm_sumE : hornerU (S p) kp <= INR (S p) * ((1 + g64 (2 * p + 1)) * th ^ p * (eta64 * W)).
Proof.
  unfold hornerU. rewrite (repeat_map_seq _ (S p) 0%nat), hornerR_as_sum. apply Rsum_seq_le. intros i Hi.
  assert (Hi' : (i <= p)%nat) by lia.
  pose proof (sm_kp_pow i) as P. pose proof (sm_th_pow i Hi') as T.
  pose proof (sm_A1_pow_nn i) as A1n. pose proof (sm_A1_pow_W i Hi') as A1W.
  pose proof eta64_pos as He. pose proof u64_pos as Hu. pose proof sm_W_pos as HW.
  rewrite Rpow_mult_distr.
  assert (EU : ((1 + u64) * (1 + u64)) ^ i = 1 + g64 (2 * i)).
  { rewrite g64_1p, pow_mult. f_equal. simpl. ring. }
  rewrite EU.
  assert (GU : 1 + g64 (2 * i) <= 1 + g64 (2 * p)) by (apply g64_1p_mono; lia).
  pose proof (g64_nonneg (2 * i)) as G0.
  assert (Q1 : kp ^ i <= th ^ p * W).
  { apply Rle_trans with (th ^ i * A 1%nat ^ i); [lra|]. apply Rmult_le_compat4; lra. }
  assert (Q2 : kp ^ i * (1 + g64 (2 * i)) <= (th ^ p * W) * (1 + g64 (2 * p))).
  { apply Rmult_le_compat4; lra. }
  replace (2 * p + 1)%nat with (S (2 * p)) by lia. rewrite g64_S'.
  replace ((1 + u64) * eta64 * (kp ^ i * (1 + g64 (2 * i))))
    with (((1 + u64) * eta64) * (kp ^ i * (1 + g64 (2 * i)))) by ring.
  replace ((1 + g64 (2 * p)) * (1 + u64) * th ^ p * (eta64 * W))
    with (((1 + u64) * eta64) * ((th ^ p * W) * (1 + g64 (2 * p)))) by ring.
  apply Rmult_le_compat_l; [apply Rmult_le_pos; lra|exact Q2].
Qed.

(* kappa * A_(p-1) in the three basic quantities *)
Lemma sm_kpA : kp * A (p - 1)%nat <= dl * A (p - 1)%nat + g64 (n + 16) * A p + (2 + G) * (eta64 * W).
Proof.
  unfold kp, kappa, Eraw.
  pose proof (A_sub 1 (p - 1)) as S1. replace (1 + (p - 1))%nat with p in S1 by lia.
  pose proof (A_nn 1%nat) as A1. pose proof (A_nn (p - 1)%nat) as Ap1. pose proof (A_nn p) as Ap.
  pose proof (A_W (p - 1)%nat ltac:(lia)) as AW. fold W in AW.
  pose proof u64_pos as Hu. pose proof eta64_pos as He. pose proof sm_G_nn as HG.
  assert (E1 : u64 + g64 (n + 1 + 14) * (1 + g64 1) = g64 (n + 16)).
  { rewrite g64_1. replace (n + 16)%nat with (S (n + 1 + 14)) by lia. rewrite g64_S. ring. }
  assert (E2 : INR 1 * (1 + g64 (n + 1 + 14)) + 1 <= 2 + G).
  { simpl INR. unfold G, cmG. pose proof (g64_mono (n + 1 + 14) (n + 2 * p + 15) ltac:(lia)). lra. }
  replace ((dl + u64 * A 1%nat + (g64 (n + 1 + 14) * ((1 + g64 1) * A 1%nat)
            + (INR 1 * (1 + g64 (n + 1 + 14)) + 1) * eta64)) * A (p - 1)%nat)
    with (dl * A (p - 1)%nat + (u64 + g64 (n + 1 + 14) * (1 + g64 1)) * (A 1%nat * A (p - 1)%nat)
          + (INR 1 * (1 + g64 (n + 1 + 14)) + 1) * (eta64 * A (p - 1)%nat)) by ring.
  rewrite E1.
  assert (Q1 : g64 (n + 16) * (A 1%nat * A (p - 1)%nat) <= g64 (n + 16) * A p).
  { apply Rmult_le_compat_l; [apply g64_nonneg|exact S1]. }
  assert (Q2 : (INR 1 * (1 + g64 (n + 1 + 14)) + 1) * (eta64 * A (p - 1)%nat) <= (2 + G) * (eta64 * W)).
  { apply Rmult_le_compat4; [simpl INR; pose proof (g64_nonneg (n + 1 + 14)); lra|apply Rmult_le_pos; lra|exact E2|].
    apply Rmult_le_compat_l; lra. }
  lra.
Qed.

Lemma sm_Eraw : Eraw n p A <= g64 (n + 2 * p + 14) * A p + (INR p * (1 + G) + 1) * (eta64 * W).
Proof.
  unfold Eraw. pose proof (A_nn p) as Ap. pose proof eta64_pos as He. pose proof sm_W_pos as HW.
  pose proof sm_G_nn as HG. pose proof (pos_INR p) as Pp.
  assert (E1 : g64 (n + p + 14) * (1 + g64 p) <= g64 (n + 2 * p + 14)).
  { eapply Rle_trans; [apply g64_mul_le|]. apply g64_mono. lia. }
  assert (Q1 : g64 (n + p + 14) * ((1 + g64 p) * A p) <= g64 (n + 2 * p + 14) * A p).
  { rewrite <- Rmult_assoc. apply Rmult_le_compat_r; assumption. }
  assert (E2 : 0 <= INR p * (1 + g64 (n + p + 14)) + 1 <= INR p * (1 + G) + 1).
  { pose proof (g64_nonneg (n + p + 14)). pose proof (g64_mono (n + p + 14) (n + 2 * p + 15) ltac:(lia)) as M.
    fold (cmG n p) in M. fold G in M.
    assert (INR p * (1 + g64 (n + p + 14)) <= INR p * (1 + G)) by (apply Rmult_le_compat_l; lra).
    assert (0 <= INR p * (1 + g64 (n + p + 14))) by (apply Rmult_le_pos; lra). lra. }
  assert (Q2 : (INR p * (1 + g64 (n + p + 14)) + 1) * eta64 <= (INR p * (1 + G) + 1) * (eta64 * W)).
  { apply Rmult_le_compat4; [lra|lra|lra|nra]. }
  lra.
Qed.

Theorem cm_bound_closed : q = S p ->
  cm_bound n p A dl <= cmC1 n p th * A p + cmC2 n p th * (dl * A (p - 1)%nat) + cmC3 n p th * (eta64 * W).
Proof.
  intros Eq. unfold cm_bound. fold kp. change (cbd n p A) with (cbdq (S p) n p A).
  pose proof sm_sumC as SC. pose proof sm_sumD as SD. pose proof sm_sumE as SE. rewrite Eq in SC, SD.
  pose proof sm_kpA as KA. pose proof sm_Eraw as ER.
  pose proof (g64_nonneg (2 * S p)) as G2. pose proof (pos_INR p) as Pp. pose proof sm_G_nn as HG.
  assert (K0 : 0 <= K).
  { unfold K, cmK. apply Rmult_le_pos; [apply pow_le; lra|apply pow_le; lra]. }
  assert (R1 : 0 <= r1) by (unfold r1, cmr1; fold G; lra).
  (* substitute the bound on kp * A_(p-1) *)
  assert (SC' : INR p * (K * (r1 * (kp * A (p - 1)%nat) + r2 * eta64 * W))
                <= INR p * (K * (r1 * (dl * A (p - 1)%nat + g64 (n + 16) * A p + (2 + G) * (eta64 * W))
                                 + r2 * eta64 * W))).
  { apply Rmult_le_compat_l; [exact Pp|]. apply Rmult_le_compat_l; [exact K0|].
    apply Rplus_le_compat_r. apply Rmult_le_compat_l; [exact R1|exact KA]. }
  assert (SD' : g64 (2 * S p) * hornerR (map (cbdq (S p) n p A) (seq 0 (S p))) kp
                <= g64 (2 * S p) * (INR (S p) * (K * (r1 * A p + r2 * eta64 * W)))).
  { apply Rmult_le_compat_l; assumption. }
  unfold cmC1, cmC2, cmC3. fold G K r1 r2.
  set (a := A p) in *. set (b := dl * A (p - 1)%nat) in *. set (w := eta64 * W) in *.
  replace (INR p * dl * A (p - 1)%nat) with (INR p * b) by (unfold b; ring).
  replace (r2 * eta64 * W) with (r2 * w) in * by (unfold w; ring).
  lra.
Qed.
End Simplify.

(* ------------------------------------------------------------------ *)
(* 4. The headline theorem in closed form                               *)
(* ------------------------------------------------------------------ *)
Lemma kappa_le_4 (xs : list F64) n : n = length xs -> (1 <= n)%nat -> g64 (n + 16) <= / 4 ->
  kappa n (Amom xs) (mdelta xs) <= 4 * Amom xs 1.
Proof.
  intros En Hn Hg. assert (Hn' : (1 <= length xs)%nat) by lia.
  unfold kappa, Eraw.
  pose proof (mdelta_le_Amom1 xs Hn') as D. pose proof (eta_le_mdelta xs Hn') as E.
  pose proof (Amom_nonneg xs 1) as A1. pose proof u64_pos as Hu.
  pose proof (g64_mono (n + 1 + 14) (n + 16) ltac:(lia)) as M. pose proof (g64_nonneg (n + 1 + 14)) as G0.
  assert (E1 : u64 + g64 (n + 1 + 14) * (1 + g64 1) = g64 (n + 16)).
  { rewrite g64_1. replace (n + 16)%nat with (S (n + 1 + 14)) by lia. rewrite g64_S. ring. }
  replace (mdelta xs + u64 * Amom xs 1 + (g64 (n + 1 + 14) * ((1 + g64 1) * Amom xs 1)
           + (INR 1 * (1 + g64 (n + 1 + 14)) + 1) * eta64))
    with (mdelta xs + (u64 + g64 (n + 1 + 14) * (1 + g64 1)) * Amom xs 1
          + (INR 1 * (1 + g64 (n + 1 + 14)) + 1) * eta64) by ring.
  rewrite E1. simpl INR.
  assert (Q1 : g64 (n + 16) * Amom xs 1 <= / 4 * Amom xs 1) by (apply Rmult_le_compat_r; assumption).
  assert (Q2 : (1 * (1 + g64 (n + 1 + 14)) + 1) * eta64 <= (2 + / 4) * Amom xs 1).
  { apply Rmult_le_compat; [lra|pose proof eta64_pos; lra|lra|lra]. }
  lra.
Qed.

Section Closed.
Variables lt et : list (Z * Z).
Let O := f64_ops lt et.

(* general conditioning constant th:  kappa <= th * A_1 *)
Theorem central_moment_v0_error_closed_th pl (xs : list F64) p n th :
  plan_ok pl n -> n = length xs -> (1 <= n)%nat -> (Z.of_nat n <= 2 ^ 53)%Z ->
  (2 <= p <= 52)%nat -> fin (central_moment_v0 O pl xs p) = true ->
  1 <= th -> kappa n (Amom xs) (mdelta xs) <= th * Amom xs 1 ->
  Rabs (B2R (central_moment_v0 O pl xs p) - cmu xs p)
    <= cmC1 n p th * Amom xs p + cmC2 n p th * (mdelta xs * Amom xs (p - 1))
       + cmC3 n p th * (eta64 * (1 + Amom xs p)).
Proof.
  intros HP En H1 H2 Hp Hf Hth Hk. assert (Hn' : (1 <= length xs)%nat) by lia.
  eapply Rle_trans; [apply (central_moment_v0_error lt et pl xs p n); assumption|].
  apply (cm_bound_closed (S p) n p (Amom xs) (mdelta xs) th); try assumption; try reflexivity.
  - lia.
  - apply Amom_nonneg.
  - apply Amom_0. exact Hn'.
  - apply Amom_submult. exact Hn'.
  - intros j Hj. apply Amom_le_1p; assumption.
  - apply Rlt_le, mdelta_pos.
Qed.

(* th = 4 always works *)
Theorem central_moment_v0_error_closed pl (xs : list F64) p n :
  plan_ok pl n -> n = length xs -> (1 <= n)%nat -> (Z.of_nat n <= 2 ^ 53)%Z ->
  (2 <= p <= 52)%nat -> fin (central_moment_v0 O pl xs p) = true ->
  g64 (n + 16) <= / 4 ->
  Rabs (B2R (central_moment_v0 O pl xs p) - cmu xs p)
    <= cmC1 n p 4 * Amom xs p + cmC2 n p 4 * (mdelta xs * Amom xs (p - 1))
       + cmC3 n p 4 * (eta64 * (1 + Amom xs p)).
Proof.
  intros HP En H1 H2 Hp Hf Hg.
  apply (central_moment_v0_error_closed_th pl xs p n 4); try assumption; [lra|].
  apply kappa_le_4; assumption.
Qed.
End Closed.

Print Assumptions cm_bound_closed.
Print Assumptions central_moment_v0_error_closed.

(* ------------------------------------------------------------------ *)
(* 5. First-order form of the constants; a concrete instance            *)
(* ------------------------------------------------------------------ *)
Lemma g64_le_lin k : INR k * u64 <= / 2 -> g64 k <= 2 * INR k * u64.
Proof.
  pose proof u64_pos as Hu. induction k as [|k IH]; intros H.
  - rewrite g64_0. simpl. lra.
  - rewrite S_INR in H |- *. pose proof (pos_INR k) as Pk.
    assert (Hk : INR k * u64 <= / 2) by nra. specialize (IH Hk).
    rewrite g64_S. nra.
Qed.

Lemma u64_le_2p10 : u64 <= / 1024.
Proof.
  unfold u64. apply Rle_trans with (bpow radix2 (-10)); [apply bpow_le; lia|].
  simpl. lra.
Qed.

Lemma g64_small_of_lin k : INR k * u64 <= / 8 -> g64 k <= / 4.
Proof. intros H. pose proof (g64_le_lin k ltac:(lra)). lra. Qed.

(* C1 is of first order in the unit roundoff: C1 <= C(n,p) * u64 *)
Lemma cmC1_first_order n p th : (1 <= p)%nat -> 1 <= th -> INR (n + 2 * p + 15) * u64 <= / 2 ->
  cmC1 n p th <= (2 * INR (n + 3 * p + 14) + 4 * INR p * cmK p th * INR (n + 16)
                  + 8 * INR (S p) * INR (S p) * cmK p th) * u64.
Proof.
  intros Hp Hth Hs. pose proof u64_pos as Hu.
  assert (L : forall m, (m <= n + 2 * p + 15)%nat -> g64 m <= 2 * INR m * u64).
  { intros m Hm. apply g64_le_lin. apply Rle_trans with (INR (n + 2 * p + 15) * u64); [|exact Hs].
    apply Rmult_le_compat_r; [lra|apply le_INR; exact Hm]. }
  pose proof (L p ltac:(lia)) as L1. pose proof (L (n + 2 * p + 14)%nat ltac:(lia)) as L2.
  pose proof (L (n + 16)%nat ltac:(lia)) as L3. pose proof (L (2 * S p)%nat ltac:(lia)) as L4.
  pose proof (L (n + 2 * p + 15)%nat ltac:(lia)) as L5.
  assert (K0 : 0 <= cmK p th) by (unfold cmK; apply Rmult_le_pos; apply pow_le; lra).
  assert (R1 : 0 <= cmr1 n p <= 2).
  { unfold cmr1, cmG. pose proof (g64_nonneg (n + 2 * p + 15)). lra. }
  pose proof (pos_INR p) as Pp. pose proof (pos_INR (S p)) as PSp. pose proof (pos_INR (n + 16)) as Pn.
  unfold cmC1.
  assert (T3 : INR p * cmK p th * cmr1 n p * g64 (n + 16) <= (INR p * cmK p th * 2) * (2 * INR (n + 16) * u64)).
  { apply Rmult_le_compat4; [|apply g64_nonneg| |exact L3].
    - apply Rmult_le_pos; [apply Rmult_le_pos; assumption|lra].
    - apply Rmult_le_compat_l; [apply Rmult_le_pos; assumption|lra]. }
  assert (T4 : g64 (2 * S p) * (INR (S p) * cmK p th * cmr1 n p)
               <= (2 * INR (2 * S p) * u64) * (INR (S p) * cmK p th * 2)).
  { apply Rmult_le_compat4; [apply g64_nonneg| |exact L4|].
    - apply Rmult_le_pos; [apply Rmult_le_pos; assumption|lra].
    - apply Rmult_le_compat_l; [apply Rmult_le_pos; assumption|lra]. }
  assert (E1 : INR (n + 3 * p + 14) = INR p + INR (n + 2 * p + 14)).
  { rewrite <- plus_INR. f_equal. lia. }
  assert (E2 : INR (2 * S p) = 2 * INR (S p)) by (rewrite mult_INR; simpl INR; lra).
  rewrite E1. rewrite E2 in T4. lra.
Qed.

(* the inequality between the two bounds alone *)
Lemma cm_bound_Amom_closed (xs : list F64) n p : n = length xs -> (1 <= n)%nat -> (1 <= p)%nat ->
  g64 (n + 16) <= / 4 ->
  cm_bound n p (Amom xs) (mdelta xs)
    <= cmC1 n p 4 * Amom xs p + cmC2 n p 4 * (mdelta xs * Amom xs (p - 1))
       + cmC3 n p 4 * (eta64 * (1 + Amom xs p)).
Proof.
  intros En Hn Hp Hg. assert (Hn' : (1 <= length xs)%nat) by lia.
  apply (cm_bound_closed (S p) n p (Amom xs) (mdelta xs) 4); try assumption; try reflexivity; try lia.
  - apply Amom_nonneg.
  - apply Amom_0. exact Hn'.
  - apply Amom_submult. exact Hn'.
  - intros j Hj. apply Amom_le_1p; assumption.
  - apply Rlt_le, mdelta_pos.
  - lra.
  - apply kappa_le_4; assumption.
Qed.

Lemma Amom_le_pow (xs : list F64) (D : R) k : (1 <= length xs)%nat ->
  (forall x, In x xs -> sdev xs x <= D) -> Amom xs k <= D ^ k.
Proof.
  intros Hn H. unfold Amom. set (N := INR (length xs)). assert (HN : 0 < N) by (apply lt_0_INR; exact Hn).
  assert (iN : 0 < / N) by (apply Rinv_0_lt_compat; exact HN).
  replace (D ^ k) with (Rsum (map (fun _ : F64 => D ^ k) xs) / N) by (rewrite Rsum_const; fold N; field; lra).
  unfold Rdiv. apply Rmult_le_compat_r; [lra|]. apply Rsum_map_le_in. intros x Hx.
  apply pow_incr. split; [apply Rlt_le, sdev_pos|apply H; exact Hx].
Qed.

Example central_moment_v0_error_closed_example : forall p, In p [2; 3; 4]%nat ->
  let xs := map f64_of_Z [1; 2; 4; 7; 11; 16; 22]%Z in
  let pl := PRows [(true, [0; 1; 2; 3]%nat); (false, [4; 5; 6]%nat)] in
  Rabs (B2R (central_moment_v0 (f64_ops [] []) pl xs p) - cmu xs p)
    <= cmC1 7 p 4 * Amom xs p + cmC2 7 p 4 * (mdelta xs * Amom xs (p - 1))
       + cmC3 7 p 4 * (eta64 * (1 + Amom xs p)).
Proof.
  intros p Hp xs pl.
  assert (Hp' : (2 <= p <= 52)%nat) by (cbn [In] in Hp; lia).
  apply (central_moment_v0_error_closed [] [] pl xs p 7); [apply Permutation_refl|reflexivity|lia|lia|exact Hp'| |].
  - cbn [In] in Hp. repeat (destruct Hp as [<-|Hp]; [vm_compute; reflexivity|]). elim Hp.
  - apply g64_small_of_lin. pose proof u64_le_2p10. pose proof u64_pos. simpl INR. lra.
Qed.

Print Assumptions cmC1_first_order.
