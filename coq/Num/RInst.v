(* The kernels over the real numbers: the reference semantics the theorems are about. *)
From Coq Require Import Reals List.
From NS Require Import Num.Ops.
Local Open Scope R_scope.

Definition R_ops : ops R := {|
  o_zero := 0; o_one := 1;
  o_add := Rplus; o_sub := Rminus; o_mul := Rmult; o_div := Rdiv;
  o_neg := Ropp; o_abs := Rabs; o_sqrt := sqrt;
  o_of_nat := INR;
  o_is_zero := fun x => if Req_EM_T x 0 then true else false;
  o_ltb := fun a b => if Rlt_dec a b then true else false;
  o_ln := ln; o_exp := exp |}.
