(* IEEE-754 binary32 (and binary32) as Flocq's BinarySingleNaN.binary_float, with the
   operations Rust's f64 performs (round to nearest even).  Values are exchanged with the
   harness as bit patterns. *)
From Coq Require Import ZArith Bool.
From Flocq Require Import Core BinarySingleNaN Binary Bits.

Definition F32 := BinarySingleNaN.binary_float 24 128.

Lemma Hprec32 : FLX.Prec_gt_0 24. Proof. reflexivity. Qed.
Lemma Hmax32 : Prec_lt_emax 24 128. Proof. reflexivity. Qed.

Definition f32_of_bits (z : Z) : F32 := B2BSN 24 128 (b32_of_bits z).

(* canonical quiet NaN for printing *)
Definition snan_bits : Z := 2143289344%Z.
Definition nan_pl32 : { x : Binary.binary_float 24 128 | Binary.is_nan 24 128 x = true } :=
  exist _ (Binary.B754_nan 24 128 false (iter_nat xO 22 xH) (refl_equal true)) (refl_equal true).
Definition bits_of_f32 (x : F32) : Z :=
  match x with
  | BinarySingleNaN.B754_nan => snan_bits
  | _ => bits_of_b32 (BSN2B 24 128 nan_pl32 x)
  end.

Definition sfadd : F32 -> F32 -> F32 := @BinarySingleNaN.Bplus 24 128 Hprec32 Hmax32 mode_NE.
Definition sfsub : F32 -> F32 -> F32 := @BinarySingleNaN.Bminus 24 128 Hprec32 Hmax32 mode_NE.
Definition sfmul : F32 -> F32 -> F32 := @BinarySingleNaN.Bmult 24 128 Hprec32 Hmax32 mode_NE.
Definition sfdiv : F32 -> F32 -> F32 := @BinarySingleNaN.Bdiv 24 128 Hprec32 Hmax32 mode_NE.
Definition sfsqrt : F32 -> F32 := @BinarySingleNaN.Bsqrt 24 128 Hprec32 Hmax32 mode_NE.
Definition sfneg : F32 -> F32 := @BinarySingleNaN.Bopp 24 128.
Definition sfabs : F32 -> F32 := @BinarySingleNaN.Babs 24 128.
Definition sfcmp : F32 -> F32 -> option comparison := @BinarySingleNaN.Bcompare 24 128.
Definition sflt (x y : F32) : bool := match sfcmp x y with Some Lt => true | _ => false end.
Definition sfle (x y : F32) : bool := match sfcmp x y with Some Lt | Some Eq => true | _ => false end.
Definition sfeq (x y : F32) : bool := match sfcmp x y with Some Eq => true | _ => false end.
Definition sfis_nan (x : F32) : bool := BinarySingleNaN.is_nan x.
Definition sfis_finite (x : F32) : bool := BinarySingleNaN.is_finite x.

(* `n as f64` for an integer n (round to nearest even; exact below 2^53) *)
Definition f32_of_Z (n : Z) : F32 := BinarySingleNaN.binary_normalize 24 128 Hprec32 Hmax32 mode_NE n 0 false.

(* floor / ceil / trunc of a float, as floats, and truncation to an integer *)
Definition sffloor : F32 -> F32 := @BinarySingleNaN.Bnearbyint 24 128 Hmax32 mode_DN.
Definition sfceil : F32 -> F32 := @BinarySingleNaN.Bnearbyint 24 128 Hmax32 mode_UP.
Definition sftrunc : F32 -> F32 := @BinarySingleNaN.Bnearbyint 24 128 Hmax32 mode_ZR.
Definition sftrunc_Z : F32 -> Z := @BinarySingleNaN.Btrunc 24 128.

Definition sfzero : F32 := BinarySingleNaN.B754_zero false.
Definition sfone : F32 := f32_of_Z 1.
Definition sfhalf : F32 := f32_of_bits 1056964608%Z.
Definition sftwo : F32 := f32_of_Z 2.
