(* The numeric kernels over the real numbers: what they compute in exact arithmetic. *)
From Coq Require Import Reals Lra Lia Psatz List Arith Permutation.
Import ListNotations.
From NS Require Import Num.Ops Num.Kernels Num.RInst.
Local Open Scope R_scope.

Fixpoint Rsum (l : list R) : R := match l with [] => 0 | x :: t => x + Rsum t end.

(* ------------------------------------------------------------------ *)
(* Generalities on Rsum                                                *)
(* ------------------------------------------------------------------ *)
Lemma Rsum_app l1 l2 : Rsum (l1 ++ l2) = Rsum l1 + Rsum l2.
Proof. induction l1 as [|x t IH]; cbn [Rsum app]; [|rewrite IH]; ring. Qed.

Lemma Rsum_perm l1 l2 : Permutation l1 l2 -> Rsum l1 = Rsum l2.
Proof.
  intros HP. induction HP as [|x l l' _ IH|x y l|l l' l'' _ IH1 _ IH2]; cbn [Rsum].
  - reflexivity.
  - rewrite IH. reflexivity.
  - ring.
  - rewrite IH1. exact IH2.
Qed.

Lemma fold_add_R xs : forall acc, fold_left (fun a x => o_add R_ops a x) xs acc = acc + Rsum xs.
Proof.
  induction xs as [|x t IH]; intros acc; cbn [fold_left Rsum].
  - ring.
  - rewrite IH. cbn [o_add R_ops]. ring.
Qed.

Lemma Rsum_const_1 {A} (l : list A) : Rsum (map (fun _ => 1) l) = INR (length l).
Proof.
  induction l as [|x t IH]; [reflexivity|].
  cbn [map Rsum length]. rewrite IH, S_INR. ring.
Qed.

Lemma Rsum_map_ext {A} (f g : A -> R) l : (forall x, f x = g x) -> Rsum (map f l) = Rsum (map g l).
Proof. intros E. induction l as [|x t IH]; cbn [map Rsum]; [reflexivity|]. rewrite E, IH. reflexivity. Qed.

(* ------------------------------------------------------------------ *)
(* S1: the 8-way unrolled fold                                         *)
(* ------------------------------------------------------------------ *)
Lemma unrolled_loop_R fuel : forall xs p,
  Rsum (fst (unrolled_loop R_ops fuel xs p)) + Rsum (snd (unrolled_loop R_ops fuel xs p)) = Rsum p + Rsum xs
  /\ length (fst (unrolled_loop R_ops fuel xs p)) = length p.
Proof.
  induction fuel as [|f IH]; intros xs p.
  - cbn [unrolled_loop fst snd]. split; reflexivity.
  - cbn [unrolled_loop].
    destruct xs as [|x0 [|x1 [|x2 [|x3 [|x4 [|x5 [|x6 [|x7 rest]]]]]]]];
      try (cbn [fst snd]; split; reflexivity).
    destruct p as [|p0 [|p1 [|p2 [|p3 [|p4 [|p5 [|p6 [|p7 [|p8 p']]]]]]]]];
      try (cbn [fst snd]; split; reflexivity).
    destruct (IH rest [o_add R_ops p0 x0; o_add R_ops p1 x1; o_add R_ops p2 x2; o_add R_ops p3 x3;
                       o_add R_ops p4 x4; o_add R_ops p5 x5; o_add R_ops p6 x6; o_add R_ops p7 x7])
      as [E L].
    split.
    + rewrite E. cbn [Rsum o_add R_ops]. ring.
    + rewrite L. reflexivity.
Qed.

Theorem unrolled_sum_R : forall xs, unrolled_sum R_ops xs = Rsum xs.
Proof.
  intros xs. unfold unrolled_sum.
  destruct (unrolled_loop_R (length xs) xs
              [o_zero R_ops; o_zero R_ops; o_zero R_ops; o_zero R_ops;
               o_zero R_ops; o_zero R_ops; o_zero R_ops; o_zero R_ops]) as [E L].
  destruct (unrolled_loop R_ops (length xs) xs _) as [p rest].
  cbn [fst snd] in E, L.
  destruct p as [|p0 [|p1 [|p2 [|p3 [|p4 [|p5 [|p6 [|p7 [|p8 p']]]]]]]]];
    cbn [length] in L; try discriminate L.
  rewrite fold_add_R. cbn [Rsum o_zero o_add R_ops] in E |- *. lra.
Qed.

(* ------------------------------------------------------------------ *)
(* S2: summation plans                                                 *)
(* ------------------------------------------------------------------ *)
Definition plan_positions (pl : plan) : list nat :=
  match pl with
  | PMem order => order
  | PRows rows => concat (map snd rows)
  end.

Definition plan_ok (pl : plan) (n : nat) : Prop := Permutation (plan_positions pl) (seq 0 n).

Lemma pick_all_seq (data : list R) : pick_all R_ops data (seq 0 (length data)) = data.
Proof.
  unfold pick_all.
  assert (G : forall (pre : list R), map (fun p => nth p (pre ++ data) (o_zero R_ops))
                (seq (length pre) (length data)) = data).
  { induction data as [|x t IH]; intros pre; [reflexivity|].
    cbn [length seq map]. f_equal.
    - rewrite app_nth2 by lia. rewrite Nat.sub_diag. reflexivity.
    - specialize (IH (pre ++ [x])). rewrite <- app_assoc in IH. cbn [app] in IH.
      rewrite app_length in IH. cbn [length] in IH. rewrite Nat.add_1_r in IH. exact IH. }
  exact (G []).
Qed.

Lemma pick_all_app (data : list R) l1 l2 :
  pick_all R_ops data (l1 ++ l2) = pick_all R_ops data l1 ++ pick_all R_ops data l2.
Proof. unfold pick_all. apply map_app. Qed.

Lemma Rsum_pick_perm (data : list R) ps : Permutation ps (seq 0 (length data)) ->
  Rsum (pick_all R_ops data ps) = Rsum data.
Proof.
  intros HP. rewrite <- (pick_all_seq data) at 2.
  apply Rsum_perm. unfold pick_all. apply Permutation_map. exact HP.
Qed.

Lemma nd_rows_R (data : list R) rows : forall s,
  fold_left (fun s (r : bool * list nat) =>
               let xs := pick_all R_ops data (snd r) in
               o_add R_ops s (if fst r then unrolled_sum R_ops xs
                              else fold_left (fun a x => o_add R_ops a x) xs (o_zero R_ops)))
            rows s
  = s + Rsum (pick_all R_ops data (concat (map snd rows))).
Proof.
  induction rows as [|[b ps] t IH]; intros s; cbn [fold_left map concat].
  - cbn [pick_all map Rsum]. ring.
  - rewrite IH. rewrite pick_all_app, Rsum_app. cbn [fst snd].
    destruct b.
    + rewrite unrolled_sum_R. cbn [o_add R_ops]. ring.
    + rewrite fold_add_R. cbn [o_add o_zero R_ops]. ring.
Qed.

Theorem nd_sum_R : forall pl data, plan_ok pl (length data) -> nd_sum R_ops pl data = Rsum data.
Proof.
  intros pl data Hok. unfold plan_ok in Hok. destruct pl as [order|rows]; cbn [plan_positions] in Hok.
  - cbn [nd_sum]. rewrite unrolled_sum_R. apply Rsum_pick_perm. exact Hok.
  - cbn [nd_sum]. rewrite nd_rows_R. cbn [o_zero R_ops]. rewrite Rsum_pick_perm by exact Hok. ring.
Qed.

Theorem plan_of_map_ok : forall pl n, plan_ok pl n -> plan_ok (plan_of_map pl n) n.
Proof.
  intros pl n Hok. destruct pl as [order|rows]; cbn [plan_of_map].
  - exact Hok.
  - unfold plan_ok. cbn [plan_positions]. apply Permutation_refl.
Qed.

(* ------------------------------------------------------------------ *)
(* S3: means                                                           *)
(* ------------------------------------------------------------------ *)
Theorem mean_R : forall pl data, plan_ok pl (length data) ->
  mean R_ops pl data = Rsum data / INR (length data).
Proof.
  intros pl data Hok. unfold mean. rewrite nd_sum_R by exact Hok. reflexivity.
Qed.

Lemma weighted_fold_R (l : list (R * R)) : forall acc,
  fold_left (fun acc dw => o_add R_ops acc (o_mul R_ops (fst dw) (snd dw))) l acc
  = acc + Rsum (map (fun dw => fst dw * snd dw) l).
Proof.
  induction l as [|dw t IH]; intros acc; cbn [fold_left map Rsum].
  - ring.
  - rewrite IH. cbn [o_add o_mul R_ops]. ring.
Qed.

Theorem weighted_sum_R : forall data ws, length ws = length data ->
  weighted_sum R_ops data ws = Rsum (map (fun dw => fst dw * snd dw) (combine data ws)).
Proof.
  intros data ws _. unfold weighted_sum. rewrite weighted_fold_R. cbn [o_zero R_ops]. ring.
Qed.

Theorem weighted_mean_R : forall plw data ws, length ws = length data -> plan_ok plw (length ws) ->
  weighted_mean R_ops plw data ws
  = Rsum (map (fun dw => fst dw * snd dw) (combine data ws)) / Rsum ws.
Proof.
  intros plw data ws HL Hok. unfold weighted_mean.
  rewrite weighted_sum_R by exact HL. rewrite nd_sum_R by exact Hok. reflexivity.
Qed.

Lemma plan_of_map_ok_map {A} (f : A -> R) pl (data : list A) :
  plan_ok pl (length data) -> plan_ok (plan_of_map pl (length data)) (length (map f data)).
Proof. intros Hok. rewrite map_length. apply plan_of_map_ok. exact Hok. Qed.

Theorem harmonic_mean_R : forall pl data, plan_ok pl (length data) ->
  harmonic_mean R_ops pl data = 1 / (Rsum (map (fun x => 1 / x) data) / INR (length data)).
Proof.
  intros pl data Hok. unfold harmonic_mean.
  rewrite mean_R by (apply plan_of_map_ok_map; exact Hok).
  rewrite map_length. reflexivity.
Qed.

Theorem geometric_mean_R : forall pl data, plan_ok pl (length data) ->
  geometric_mean R_ops pl data = exp (Rsum (map ln data) / INR (length data)).
Proof.
  intros pl data Hok. unfold geometric_mean.
  rewrite mean_R by (apply plan_of_map_ok_map; exact Hok).
  rewrite map_length. reflexivity.
Qed.

(* ------------------------------------------------------------------ *)
(* C18 (structural, any carrier): central_moments is central_moment    *)
(* order by order                                                      *)
(* ------------------------------------------------------------------ *)
Lemma firstn_seq n : forall s len, firstn n (seq s len) = seq s (Nat.min n len).
Proof.
  induction n as [|n IH]; intros s len; [reflexivity|].
  destruct len as [|len]; [reflexivity|].
  cbn [seq firstn Nat.min]. rewrite IH. reflexivity.
Qed.

Lemma nth_map_seq {B} (f : nat -> B) s len i d : (i < len)%nat ->
  nth i (map f (seq s len)) d = f (s + i)%nat.
Proof.
  intros Hi. rewrite (nth_indep _ d (f 0%nat)) by (rewrite map_length, seq_length; exact Hi).
  rewrite map_nth. rewrite seq_nth by exact Hi. reflexivity.
Qed.

Lemma moments_length {T} (O : ops T) pl a p : length (moments O pl a p) = S p.
Proof.
  unfold moments. rewrite !app_length, map_length, seq_length. cbn [length].
  destruct p as [|p]; cbn [Nat.leb length]; lia.
Qed.

Lemma moments_prefix {T} (O : ops T) pl a p k : (k <= p)%nat -> (1 <= k)%nat ->
  firstn (S k) (moments O pl a p) = moments O pl a k.
Proof.
  intros Hkp Hk. unfold moments.
  destruct p as [|p]; [lia|]. destruct k as [|k]; [lia|].
  cbn [Nat.leb app firstn]. f_equal. f_equal.
  rewrite firstn_map, firstn_seq. f_equal. f_equal. lia.
Qed.

Lemma moments_nth1 {T} (O : ops T) pl a p d : (1 <= p)%nat ->
  nth 1 (moments O pl a p) d = o_div O (nd_sum O pl a) (o_of_nat O (length a)).
Proof.
  intros Hp. unfold moments. destruct p as [|p]; [lia|]. reflexivity.
Qed.

Theorem central_moments_nth : forall T (O : ops T) pl data p k d, (k <= p)%nat ->
  nth k (central_moments O pl data p) d = central_moment O pl data k.
Proof.
  intros T O pl data p k d Hkp.
  destruct p as [|[|p]].
  - assert (k = 0)%nat by lia. subst k. reflexivity.
  - destruct k as [|[|k]]; [reflexivity|reflexivity|lia].
  - destruct k as [|[|k]]; [reflexivity|reflexivity|].
    cbv beta iota delta [central_moments central_moment].
    cbn [app nth].
    rewrite nth_map_seq by lia.
    replace (2 + k)%nat with (S (S k)) by lia.
    rewrite moments_prefix by lia.
    rewrite !moments_nth1 by lia. reflexivity.
Qed.

(* ------------------------------------------------------------------ *)
(* S4: West's incremental weighted variance                            *)
(* ------------------------------------------------------------------ *)
Definition K3 (ws : list R) : Prop :=
  exists k, (k < length ws)%nat /\ nth k ws 0 <> 0 /\ Rsum (firstn (S k) ws) = 0.

(* moment sums of a list of (x, w) pairs *)
Definition S0 (l : list (R * R)) : R := Rsum (map snd l).
Definition S1 (l : list (R * R)) : R := Rsum (map (fun xw => fst xw * snd xw) l).
Definition S2 (l : list (R * R)) : R := Rsum (map (fun xw => snd xw * (fst xw * fst xw)) l).

(* whenever a non-zero weight arrives, the running sum including it is non-zero *)
Fixpoint okw (W : R) (l : list (R * R)) : Prop :=
  match l with
  | [] => True
  | xw :: t => (snd xw <> 0 -> W + snd xw <> 0) /\ okw (W + snd xw) t
  end.

Lemma west_step_zero st x w : w = 0 -> west_step R_ops st (x, w) = st.
Proof.
  intros E. unfold west_step. destruct st as [[W m] s]. cbn [o_is_zero R_ops].
  destruct (Req_EM_T w 0) as [_|N]; [reflexivity|contradiction].
Qed.

Lemma west_step_nz W m s x w : w <> 0 ->
  west_step R_ops (W, m, s) (x, w) =
  (W + w, m + w / (W + w) * (x - m), s + W * (w / (W + w) * (x - m)) * (x - m)).
Proof.
  intros N. unfold west_step. cbn [o_is_zero R_ops].
  destruct (Req_EM_T w 0) as [E|_]; [contradiction|reflexivity].
Qed.

Lemma west_gen l : forall W m s a0 a1 a2,
  W = a0 -> W * m = a1 -> s = a2 - W * m * m -> okw W l ->
  let '(W', m', s') := fold_left (west_step R_ops) l (W, m, s) in
  W' = a0 + S0 l /\ W' * m' = a1 + S1 l /\ s' = a2 + S2 l - W' * m' * m'.
Proof.
  unfold S0, S1, S2.
  induction l as [|[x w] t IH]; intros W m s a0 a1 a2 H0 H1 H2 Hok.
  - cbn [fold_left map Rsum]. repeat split; lra.
  - cbn [fold_left map Rsum fst snd]. destruct Hok as [Hw Hok]. cbn [snd] in Hw, Hok.
    destruct (Req_EM_T w 0) as [E|N].
    + rewrite (west_step_zero _ x w E). subst w.
      replace (W + 0) with W in Hok by ring.
      specialize (IH W m s a0 a1 a2 H0 H1 H2 Hok).
      destruct (fold_left (west_step R_ops) t (W, m, s)) as [[W' m'] s'].
      destruct IH as (I0 & I1 & I2). repeat split; lra.
    + rewrite (west_step_nz W m s x w N). specialize (Hw N).
      specialize (IH (W + w) (m + w / (W + w) * (x - m))
                     (s + W * (w / (W + w) * (x - m)) * (x - m))
                     (a0 + w) (a1 + x * w) (a2 + w * (x * x))).
      assert (G1 : (W + w) * (m + w / (W + w) * (x - m)) = a1 + x * w).
      { rewrite <- H1. field. exact Hw. }
      assert (G2 : s + W * (w / (W + w) * (x - m)) * (x - m) =
                   a2 + w * (x * x) - (W + w) * (m + w / (W + w) * (x - m)) * (m + w / (W + w) * (x - m))).
      { rewrite H2. field. exact Hw. }
      specialize (IH ltac:(lra) G1 G2 Hok).
      destruct (fold_left (west_step R_ops) t _) as [[W' m'] s'].
      destruct IH as (I0 & I1 & I2). repeat split; lra.
Qed.

Lemma west_state l : okw 0 l -> S0 l <> 0 ->
  let '(W, m, s) := fold_left (west_step R_ops) l (0, 0, 0) in
  W = S0 l /\ m = S1 l / S0 l /\ s = S2 l - S1 l * S1 l / S0 l.
Proof.
  intros Hok Hne.
  pose proof (west_gen l 0 0 0 0 0 0 eq_refl ltac:(lra) ltac:(lra) Hok) as G.
  destruct (fold_left (west_step R_ops) l (0, 0, 0)) as [[W m] s]. destruct G as (G0 & G1 & G2).
  assert (EW : W = S0 l) by lra. subst W.
  assert (Em : m = S1 l / S0 l).
  { apply (Rmult_eq_reg_l (S0 l)); [|exact Hne].
    replace (S0 l * (S1 l / S0 l)) with (S1 l) by (field; exact Hne). lra. }
  repeat split; auto. rewrite G2. subst m. field. exact Hne.
Qed.

(* the generalised K3: with a running sum W already accumulated *)
Definition K3from (W : R) (ws : list R) : Prop :=
  exists k, (k < length ws)%nat /\ nth k ws 0 <> 0 /\ W + Rsum (firstn (S k) ws) = 0.

Lemma K3from_0 ws : K3from 0 ws <-> K3 ws.
Proof.
  unfold K3from, K3. split; intros (k & Hk & Hn & Hs); exists k; repeat split; auto; lra.
Qed.

Lemma okw_of_notK3 : forall ws data W, length ws = length data -> ~ K3from W ws ->
  okw W (combine data ws).
Proof.
  induction ws as [|w ws IH]; intros data W HL HK.
  - destruct data; exact I.
  - destruct data as [|x data]; [discriminate HL|]. cbn [combine okw snd]. split.
    + intros Hw E. apply HK. exists 0%nat. cbn [length nth firstn Rsum].
      repeat split; [lia|exact Hw|lra].
    + apply IH; [cbn [length] in HL; lia|].
      intros (k & Hk & Hn & Hs). apply HK. exists (S k). cbn [length nth firstn Rsum].
      repeat split; [lia|exact Hn|]. cbn [firstn] in Hs. lra.
Qed.

Lemma map_snd_combine {A B} : forall (l1 : list A) (l2 : list B), length l2 = length l1 ->
  map snd (combine l1 l2) = l2.
Proof.
  induction l1 as [|a l1 IH]; intros [|b l2] HL; try discriminate HL; [reflexivity|].
  cbn [combine map snd]. f_equal. apply IH. cbn [length] in HL. lia.
Qed.

Lemma weighted_sq_dev l c :
  Rsum (map (fun xw => snd xw * (fst xw - c) ^ 2) l) = S2 l - 2 * c * S1 l + c * c * S0 l.
Proof.
  unfold S0, S1, S2. induction l as [|[x w] t IH]; cbn [map Rsum fst snd].
  - ring.
  - rewrite IH. ring.
Qed.

Theorem west_R : forall data ws ddof,
  length ws = length data -> ~ K3 ws -> Rsum ws - ddof <> 0 -> Rsum ws <> 0 ->
  west R_ops data ws ddof
  = Rsum (map (fun xw => snd xw *
                 (fst xw - Rsum (map (fun xw => fst xw * snd xw) (combine data ws)) / Rsum ws) ^ 2)
              (combine data ws))
    / (Rsum ws - ddof).
Proof.
  intros data ws ddof HL HK Hd Hne.
  assert (E0 : S0 (combine data ws) = Rsum ws).
  { unfold S0. rewrite map_snd_combine by exact HL. reflexivity. }
  assert (Hok : okw 0 (combine data ws)).
  { apply okw_of_notK3; [exact HL|]. rewrite K3from_0. exact HK. }
  pose proof (west_state (combine data ws) Hok ltac:(rewrite E0; exact Hne)) as G.
  unfold west. cbn [o_zero R_ops].
  destruct (fold_left (west_step R_ops) (combine data ws) (0, 0, 0)) as [[W m] s].
  destruct G as (G0 & G1 & G2).
  rewrite weighted_sq_dev. fold (S1 (combine data ws)).
  cbn [o_div o_sub R_ops]. rewrite G0, G2, E0. field. split; assumption.
Qed.

Lemma nth_le_prefix_sum : forall ws k, Forall (fun w => 0 <= w) ws -> (k < length ws)%nat ->
  nth k ws 0 <= Rsum (firstn (S k) ws).
Proof.
  induction ws as [|w ws IH]; intros k HF Hk; [cbn [length] in Hk; lia|].
  inversion HF as [|w' ws' Hw HF']; subst.
  destruct k as [|k].
  - cbn [nth firstn Rsum]. lra.
  - cbn [length] in Hk. specialize (IH k HF' ltac:(lia)).
    cbn [nth]. change (firstn (S (S k)) (w :: ws)) with (w :: firstn (S k) ws).
    cbn [Rsum]. lra.
Qed.

Theorem nonneg_not_K3 : forall ws, Forall (fun w => 0 <= w) ws -> ~ K3 ws.
Proof.
  intros ws HF (k & Hk & Hn & Hs).
  pose proof (nth_le_prefix_sum ws k HF Hk) as Hle.
  assert (Hge : 0 <= nth k ws 0).
  { rewrite Forall_forall in HF. apply HF. apply nth_In. exact Hk. }
  lra.
Qed.

Lemma Rsum_nonneg l : Forall (fun w => 0 <= w) l -> 0 <= Rsum l.
Proof.
  induction 1 as [|w l Hw _ IH]; cbn [Rsum]; lra.
Qed.

Lemma Rsum_nonneg_zero l : Forall (fun w => 0 <= w) l -> Rsum l = 0 -> Forall (fun w => w = 0) l.
Proof.
  induction 1 as [|w l Hw HF IH]; intros E; [constructor|].
  cbn [Rsum] in E. pose proof (Rsum_nonneg l HF) as Hl.
  constructor; [lra|]. apply IH. lra.
Qed.

Lemma west_all_zero : forall ws data st, Forall (fun w => w = 0) ws ->
  fold_left (west_step R_ops) (combine data ws) st = st.
Proof.
  induction ws as [|w ws IH]; intros data st HF.
  - destruct data; reflexivity.
  - destruct data as [|x data]; [reflexivity|].
    inversion HF as [|w' ws' Hw HF']; subst.
    cbn [combine fold_left]. rewrite west_step_zero by reflexivity. apply IH. exact HF'.
Qed.

Lemma weighted_sq_nonneg c : forall ws data, Forall (fun w => 0 <= w) ws ->
  0 <= Rsum (map (fun xw => snd xw * (fst xw - c) ^ 2) (combine data ws)).
Proof.
  induction ws as [|w ws IH]; intros data HF.
  - destruct data; cbn [combine map Rsum]; lra.
  - destruct data as [|x data]; [cbn [combine map Rsum]; lra|].
    inversion HF as [|w' ws' Hw HF']; subst.
    cbn [combine map Rsum fst snd]. specialize (IH data HF').
    assert (0 <= w * (x - c) ^ 2) by (apply Rmult_le_pos; [exact Hw|apply pow2_ge_0]).
    lra.
Qed.

Theorem west_nonneg : forall data ws ddof,
  Forall (fun w => 0 <= w) ws -> 0 < Rsum ws - ddof -> length ws = length data ->
  0 <= west R_ops data ws ddof.
Proof.
  intros data ws ddof HF Hd HL.
  destruct (Req_EM_T (Rsum ws) 0) as [E|N].
  - unfold west. rewrite west_all_zero by (apply Rsum_nonneg_zero; assumption).
    cbn [o_zero o_div o_sub R_ops]. unfold Rdiv. rewrite Rmult_0_l. lra.
  - rewrite west_R; [|exact HL|apply nonneg_not_K3; exact HF|lra|exact N].
    apply Rmult_le_pos; [apply weighted_sq_nonneg; exact HF|].
    apply Rlt_le, Rinv_0_lt_compat. exact Hd.
Qed.

Theorem K3_witness : K3 [1; -1; 1].
Proof.
  exists 1%nat. cbn [length nth firstn Rsum]. repeat split; [lia|lra|lra].
Qed.

Lemma west_fold_skip_agrees l : forall st, (forall xw, In xw l -> snd xw <> 0) ->
  fold_left (west_step_v0 R_ops) l st = fold_left (west_step R_ops) l st.
Proof.
  induction l as [|[x w] t IH]; intros st Hnz; [reflexivity|].
  cbn [fold_left].
  assert (Hw : w <> 0) by (apply (Hnz (x, w)); left; reflexivity).
  destruct st as [[W m] s]. rewrite (west_step_nz W m s x w Hw).
  rewrite <- IH by (intros xw Hin; apply Hnz; right; exact Hin).
  reflexivity.
Qed.

Theorem west_skip_agrees : forall data ws ddof, (forall w, In w ws -> w <> 0) ->
  west_v0 R_ops data ws ddof = west R_ops data ws ddof.
Proof.
  intros data ws ddof Hnz. unfold west_v0, west.
  rewrite west_fold_skip_agrees; [reflexivity|].
  intros [x w] Hin. cbn [snd]. apply Hnz. exact (in_combine_r _ _ _ _ Hin).
Qed.

(* the D6 repair does not change the value in exact arithmetic: the pre-repair update
   s += w (x - m)(x - m') and West's update s += W (w/(W+w) (x - m)) (x - m) coincide
   whenever no running weight sum vanishes (outside K3) *)
Lemma west_fold_v1_agrees l : forall W m s, okw W l ->
  fold_left (west_step_v1 R_ops) l (W, m, s) = fold_left (west_step R_ops) l (W, m, s).
Proof.
  induction l as [|[x w] t IH]; intros W m s Hok; [reflexivity|].
  cbn [fold_left]. destruct Hok as [Hw Hok]. cbn [snd] in Hw, Hok.
  destruct (Req_EM_T w 0) as [E|N].
  - rewrite (west_step_zero _ x w E).
    assert (E1 : west_step_v1 R_ops (W, m, s) (x, w) = (W, m, s)).
    { unfold west_step_v1. cbn [o_is_zero R_ops].
      destruct (Req_EM_T w 0) as [_|N]; [reflexivity|contradiction]. }
    rewrite E1. subst w. replace (W + 0) with W in Hok by ring. apply IH. exact Hok.
  - rewrite (west_step_nz W m s x w N). specialize (Hw N).
    assert (E1 : west_step_v1 R_ops (W, m, s) (x, w) =
                 (W + w, m + w / (W + w) * (x - m), s + W * (w / (W + w) * (x - m)) * (x - m))).
    { unfold west_step_v1. cbn [o_is_zero R_ops].
      destruct (Req_EM_T w 0) as [E|_]; [contradiction|].
      cbn [o_add o_sub o_mul o_div R_ops]. f_equal. field. exact Hw. }
    rewrite E1. apply IH. exact Hok.
Qed.

Theorem west_v1_agrees : forall data ws ddof, length ws = length data -> ~ K3 ws ->
  west_v1 R_ops data ws ddof = west R_ops data ws ddof.
Proof.
  intros data ws ddof HL HK. unfold west_v1, west. cbn [o_zero R_ops].
  rewrite west_fold_v1_agrees; [reflexivity|].
  apply okw_of_notK3; [exact HL|]. intros H. apply HK. apply K3from_0. exact H.
Qed.

(* ------------------------------------------------------------------ *)
(* S5: powi, raw moments, central moments                              *)
(* ------------------------------------------------------------------ *)
Lemma powi_loop_R fuel : forall a r b, (b < fuel)%nat ->
  powi_loop R_ops fuel a r b = r * a ^ b.
Proof.
  induction fuel as [|f IH]; intros a r b Hb; [lia|].
  cbn [powi_loop].
  pose proof (Nat.div2_odd b) as Hdo.
  remember (Nat.div2 b) as d eqn:Ed.
  remember (Nat.odd b) as o eqn:Eo.
  destruct (Nat.eqb d 0) eqn:E0.
  - apply Nat.eqb_eq in E0. rewrite E0 in Hdo. clear Ed Eo.
    destruct o; cbn [Nat.b2n] in Hdo; cbn [o_mul R_ops].
    + assert (Eb : b = 1%nat) by lia. rewrite Eb. ring.
    + assert (Eb : b = 0%nat) by lia. rewrite Eb. ring.
  - apply Nat.eqb_neq in E0.
    rewrite IH by (destruct o; cbn [Nat.b2n] in Hdo; lia).
    cbn [o_mul R_ops].
    assert (Ep : (a * a) ^ d = a ^ (2 * d)).
    { rewrite pow_mult. f_equal. ring. }
    rewrite Ep.
    destruct o; cbn [Nat.b2n] in Hdo; rewrite Hdo.
    + rewrite pow_add. ring.
    + rewrite Nat.add_0_r. ring.
Qed.

Theorem powi_R : forall a k, powi R_ops a k = a ^ k.
Proof.
  intros a k. unfold powi. rewrite powi_loop_R by lia. cbn [o_one R_ops]. ring.
Qed.

Theorem moments_R : forall pl a order, plan_ok pl (length a) -> (1 <= length a)%nat ->
  forall k, (k <= order)%nat ->
  nth k (moments R_ops pl a order) 0 = Rsum (map (fun x => x ^ k) a) / INR (length a).
Proof.
  intros pl a order Hok Hlen k Hk.
  assert (Hn : INR (length a) <> 0) by (apply not_0_INR; lia).
  destruct k as [|[|k]].
  - unfold moments. cbn [app nth o_one R_ops].
    rewrite (Rsum_map_ext (fun x => x ^ 0) (fun _ => 1)) by (intros x; reflexivity).
    rewrite Rsum_const_1. field. exact Hn.
  - rewrite moments_nth1 by exact Hk. rewrite nd_sum_R by exact Hok.
    rewrite (Rsum_map_ext (fun x => x ^ 1) (fun x => x)) by (intros x; ring).
    rewrite map_id. reflexivity.
  - unfold moments. destruct order as [|order]; [lia|].
    cbn [Nat.leb app nth]. rewrite nth_map_seq by lia.
    replace (2 + k)%nat with (S (S k)) by lia.
    rewrite nd_sum_R by (apply plan_of_map_ok_map; exact Hok).
    rewrite (Rsum_map_ext (fun x => powi R_ops x (S (S k))) (fun x => x ^ S (S k)))
      by (intros x; apply powi_R).
    reflexivity.
Qed.

Theorem horner_at_0 : forall c cs, horner R_ops (c :: cs) 0 = c.
Proof.
  intros c cs. unfold horner. cbn [rev]. rewrite fold_left_app. cbn [fold_left o_add o_mul R_ops]. ring.
Qed.

Theorem iter_binomial_head : forall n, hd 0%nat (iter_binomial n) = 1%nat.
Proof.
  intros n. unfold iter_binomial. cbn [iter_binomial_from].
  replace (Nat.ltb n 0) with false by (symmetry; apply Nat.ltb_ge; lia).
  reflexivity.
Qed.

Lemma Rsum_shift (l : list R) c : Rsum (map (fun x => x - c) l) = Rsum l - INR (length l) * c.
Proof.
  induction l as [|x t IH]; [cbn [map Rsum length INR]; ring|].
  cbn [map Rsum length]. rewrite IH, S_INR. ring.
Qed.

Lemma cmc_head (sm : list R) p : length sm = S p ->
  exists cs, central_moment_coefficients R_ops sm = nth p sm 0 :: cs.
Proof.
  intros HL. unfold central_moment_coefficients.
  pose proof (iter_binomial_head (Nat.pred (length sm))) as Hb.
  destruct (iter_binomial (Nat.pred (length sm))) as [|b bs]; [discriminate Hb|]. cbn [hd] in Hb. subst b.
  pose proof (rev_nth sm 0 (n := 0) ltac:(lia)) as Hr.
  destruct (rev sm) as [|y ys] eqn:Er.
  { apply (f_equal (@length R)) in Er. rewrite rev_length in Er. cbn [length] in Er. lia. }
  cbn [nth] in Hr. rewrite HL in Hr. replace (S p - 1)%nat with p in Hr by lia. subst y.
  cbn [combine map fst snd]. eexists. f_equal. cbn [o_mul o_of_nat R_ops INR]. ring.
Qed.

Theorem central_moment_R : forall pl data p, plan_ok pl (length data) -> (1 <= length data)%nat ->
  central_moment R_ops pl data p
  = Rsum (map (fun x => (x - Rsum data / INR (length data)) ^ p) data) / INR (length data).
Proof.
  intros pl data p Hok Hlen.
  assert (Hn : INR (length data) <> 0) by (apply not_0_INR; lia).
  set (xbar := Rsum data / INR (length data)).
  destruct p as [|[|p]].
  - cbn [central_moment o_one R_ops].
    rewrite (Rsum_map_ext (fun x => (x - xbar) ^ 0) (fun _ => 1)) by (intros x; reflexivity).
    rewrite Rsum_const_1. field. exact Hn.
  - cbn [central_moment o_zero R_ops].
    rewrite (Rsum_map_ext (fun x => (x - xbar) ^ 1) (fun x => x - xbar)) by (intros x; ring).
    rewrite Rsum_shift. unfold xbar. field. exact Hn.
  - cbv beta iota delta [central_moment].
    rewrite mean_R by exact Hok. fold xbar. cbn [o_sub o_zero o_neg R_ops].
    set (shifted := map (fun x => x - xbar) data).
    assert (HLs : length shifted = length data) by (unfold shifted; apply map_length).
    assert (Hoks : plan_ok (plan_of_map pl (length data)) (length shifted)).
    { rewrite HLs. apply plan_of_map_ok. exact Hok. }
    set (sm := moments R_ops (plan_of_map pl (length data)) shifted (S (S p))).
    assert (E1 : nth 1 sm 0 = 0).
    { unfold sm. rewrite moments_R; [|exact Hoks|lia|lia].
      rewrite (Rsum_map_ext (fun x => x ^ 1) (fun x => x)) by (intros x; ring).
      rewrite map_id. unfold shifted. rewrite Rsum_shift, map_length. unfold xbar. field. exact Hn. }
    rewrite E1, Ropp_0.
    destruct (cmc_head sm (S (S p)) ltac:(unfold sm; apply moments_length)) as [cs Ecs].
    rewrite Ecs, horner_at_0.
    unfold sm. rewrite moments_R; [|exact Hoks|lia|lia].
    rewrite HLs. unfold shifted. rewrite map_map. reflexivity.
Qed.

Theorem central_moments_R : forall pl data p k, plan_ok pl (length data) -> (1 <= length data)%nat ->
  (k <= p)%nat ->
  nth k (central_moments R_ops pl data p) 0
  = Rsum (map (fun x => (x - Rsum data / INR (length data)) ^ k) data) / INR (length data).
Proof.
  intros pl data p k Hok Hlen Hk.
  rewrite central_moments_nth by exact Hk. apply central_moment_R; assumption.
Qed.

(* ------------------------------------------------------------------ *)
(* S6: kurtosis, skewness                                              *)
(* ------------------------------------------------------------------ *)
Definition mu (data : list R) (k : nat) : R :=
  Rsum (map (fun x => (x - Rsum data / INR (length data)) ^ k) data) / INR (length data).

Theorem kurtosis_R : forall pl data, plan_ok pl (length data) -> (1 <= length data)%nat ->
  kurtosis R_ops pl data = mu data 4 / (mu data 2) ^ 2.
Proof.
  intros pl data Hok Hlen. unfold kurtosis. cbn [o_zero o_div R_ops].
  rewrite powi_R. rewrite !central_moments_R by (assumption || lia). reflexivity.
Qed.

Theorem skewness_R : forall pl data, plan_ok pl (length data) -> (1 <= length data)%nat ->
  skewness R_ops pl data = mu data 3 / (sqrt (mu data 2)) ^ 3.
Proof.
  intros pl data Hok Hlen. unfold skewness. cbn [o_zero o_div o_sqrt R_ops].
  rewrite powi_R. rewrite !central_moments_R by (assumption || lia). reflexivity.
Qed.

Print Assumptions unrolled_sum_R.
Print Assumptions nd_sum_R.
Print Assumptions plan_of_map_ok.
Print Assumptions mean_R.
Print Assumptions weighted_sum_R.
Print Assumptions weighted_mean_R.
Print Assumptions harmonic_mean_R.
Print Assumptions geometric_mean_R.
Print Assumptions central_moments_nth.
Print Assumptions moments_prefix.
Print Assumptions west_R.
Print Assumptions nonneg_not_K3.
Print Assumptions west_nonneg.
Print Assumptions K3_witness.
Print Assumptions west_skip_agrees.
Print Assumptions west_v1_agrees.
Print Assumptions powi_R.
Print Assumptions moments_R.
Print Assumptions horner_at_0.
Print Assumptions iter_binomial_head.
Print Assumptions central_moment_R.
Print Assumptions central_moments_R.
Print Assumptions kurtosis_R.
Print Assumptions skewness_R.
