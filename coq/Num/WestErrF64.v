(* Forward error analysis of West's incremental weighted variance (Num/Kernels.v west_step / west,
   src/summary_statistics/means.rs inner_weighted_var) in IEEE-754 binary64: the computed weight
   sum, running mean and running sum of squares against the exact prefix quantities
   W_k = sum w,  M_k = sum w x / W_k,  S_k = sum w (x - M_k)^2.
   Sections 1-3: one executable step in the rounding-factor model [fstep] of Num/WestErrR.v and an
   underflow-free a-priori bound on the computed mean; section 4: the invariant and the induction
   over the list; section 5: the headline theorems in terms of the data. *)
From Flocq Require Import Core BinarySingleNaN Plus_error Relative.
Require Import Reals Lra Lia ZArith Psatz Bool List.
From NS Require Import Num.F64 Num.Ops Num.F64Inst Num.RInst Num.Kernels Num.SumBridge Num.SumF64.
From NS Require Import Quantile.IndexProofs Quantile.InterpF64 Num.WestF64 Num.WestErrR.
From NS Require Num.KernelsR.
Import ListNotations.
Open Scope R_scope.

Local Instance prec64_gt_0E : Prec_gt_0 53 := Hprec64.
Local Instance vexp64E : Valid_exp fx := fexp_correct 53 1024 Hprec64.

(* ------------------------------------------------------------------ *)
(* 1. Roundings as factors                                             *)
(* ------------------------------------------------------------------ *)
Lemma rnd_fac (x : R) : exists f h : R, rel 1 f /\ Rabs h <= eta64 /\ rnd x = x * f + h.
Proof.
  destruct (relative_error_N_FLT'_ex radix2 (-1074) 53 Hprec64 (fun z => negb (Z.even z)) x)
    as (e & h & He & Hh & _ & E).
  exists (1 + e), h. split; [|split].
  - apply rel_eps. rewrite u64_u_ro. exact He.
  - rewrite eta64_eq. exact Hh.
  - exact E.
Qed.

Lemma rnd_plus_fac (x y : R) : fmt x -> fmt y -> exists f : R, rel 1 f /\ rnd (x + y) = (x + y) * f.
Proof.
  intros Gx Gy. destruct (rnd_plus_model x y Gx Gy) as (e & He & E).
  exists (1 + e). split; [apply rel_eps; exact He | exact E].
Qed.

Lemma rnd_minus_fac (x y : R) : fmt x -> fmt y -> exists f : R, rel 1 f /\ rnd (x - y) = (x - y) * f.
Proof.
  intros Gx Gy. destruct (rnd_minus_model x y Gx Gy) as (e & He & E).
  exists (1 + e). split; [apply rel_eps; exact He | exact E].
Qed.

(* ------------------------------------------------------------------ *)
(* 2. One executable step in the factor model                          *)
(* ------------------------------------------------------------------ *)
Lemma west_step_fstep (wsum m s x w : F64) :
  let wsum' := fadd wsum w in
  let inc := fmul (fdiv w wsum') (fsub x m) in
  let m' := fadd m inc in
  let s' := fadd s (fmul (fmul wsum inc) (fsub x m)) in
  fis_finite wsum' = true -> fis_finite m' = true -> fis_finite s' = true ->
  0 <= B2R wsum -> 0 < B2R w ->
  fstep (B2R wsum) (B2R m) (B2R s) (B2R x) (B2R w) (B2R wsum') (B2R m') (B2R s').
Proof.
  cbv zeta. intros Fwsum' Fm' Fs' Hwsum Hw.
  destruct (west_step_vals wsum m s x w Fwsum' Fm' Fs' Hwsum Hw)
    as (_ & Ewsum' & _ & Er & Em' & Esinc & Es').
  cbv zeta in *. unfold Rmean' in Em'.
  set (Wh' := B2R (fadd wsum w)) in *.
  set (rr := B2R (fdiv w (fadd wsum w))) in *.
  set (sincF := fmul (fmul wsum (fmul (fdiv w (fadd wsum w)) (fsub x m))) (fsub x m)) in *.
  destruct (rnd_plus_fac (B2R wsum) (B2R w) (fmt_B2R _) (fmt_B2R _)) as (f1 & R1 & E1).
  destruct (rnd_fac (B2R w / Wh')) as (f2 & h2 & R2 & H2 & E2).
  destruct (rnd_minus_fac (B2R x) (B2R m) (fmt_B2R _) (fmt_B2R _)) as (f3 & R3 & E3).
  set (xmm := rnd (B2R x - B2R m)) in *.
  destruct (rnd_fac (rr * xmm)) as (f4 & h4 & R4 & H4 & E4).
  set (inc := rnd (rr * xmm)) in *.
  destruct (rnd_plus_fac (B2R m) inc (fmt_B2R _) (rnd_fmt _)) as (f5 & R5 & E5).
  destruct (rnd_fac (B2R wsum * inc)) as (f6 & h6 & R6 & H6 & E6).
  set (t := rnd (B2R wsum * inc)) in *.
  destruct (rnd_fac (t * xmm)) as (f7 & h7 & R7 & H7 & E7).
  destruct (rnd_plus_fac (B2R s) (B2R sincF) (fmt_B2R _) (fmt_B2R _)) as (f8 & R8 & E8).
  exists f1, f2, f3, f4, f5, f6, f7, f8, h2, h4, h6, h7.
  split; [repeat split; (apply R1 || apply R2 || apply R3 || apply R4 || apply R5 || apply R6 || apply R7 || apply R8)|].
  split; [repeat split; assumption|].
  split; [rewrite Ewsum'; exact E1|].
  split.
  - rewrite Em', E5, E4, Er, E2, E3. reflexivity.
  - rewrite Es', E8, Esinc, E7, E6, E4, Er, E2, E3. reflexivity.
Qed.

(* ------------------------------------------------------------------ *)
(* 3. An a-priori bound on the computed mean (no underflow term)       *)
(* ------------------------------------------------------------------ *)
Lemma mean_crude (m x r : R) : fmt m -> fmt x -> 0 <= r <= 1 ->
  Rabs (Rmean' m x r) <= (1 + u64) * Rmax (Rabs m) (Rabs x + u64 * Rabs (x - m)).
Proof.
  intros Gm Gx Hr. unfold Rmean'.
  destruct (rnd_minus_model x m Gx Gm) as (e3 & He3 & E3).
  pose proof u64_frac_le as Hfr. pose proof u64_pos as Hu.
  assert (He3' : Rabs e3 <= u64) by lra.
  set (xmm := rnd (x - m)) in *.
  assert (Gxmm : fmt xmm) by apply rnd_fmt.
  set (inc := rnd (r * xmm)).
  assert (Hinc : (0 <= xmm -> 0 <= inc <= xmm) /\ (xmm <= 0 -> xmm <= inc <= 0)).
  { split; intros Hs.
    - split; [apply rnd_ge_0; nra | apply rnd_le_fmt; [exact Gxmm | nra]].
    - split; [apply rnd_ge_fmt; [exact Gxmm | nra] | apply rnd_le_0; nra]. }
  assert (Hsum : Rabs (m + inc) <= Rmax (Rabs m) (Rabs x + u64 * Rabs (x - m))).
  { assert (Hmx : Rabs (m + xmm) <= Rabs x + u64 * Rabs (x - m)).
    { rewrite E3. replace (m + (x - m) * (1 + e3)) with (x + (x - m) * e3) by ring.
      eapply Rle_trans; [apply Rabs_triang|]. apply Rplus_le_compat_l.
      rewrite Rabs_mult, Rmult_comm. apply Rmult_le_compat_r; [apply Rabs_pos | exact He3']. }
    assert (Hm1 : Rabs m <= Rmax (Rabs m) (Rabs x + u64 * Rabs (x - m))) by apply Rmax_l.
    assert (Hm2 : Rabs (m + xmm) <= Rmax (Rabs m) (Rabs x + u64 * Rabs (x - m))).
    { eapply Rle_trans; [exact Hmx | apply Rmax_r]. }
    set (Z := Rmax (Rabs m) (Rabs x + u64 * Rabs (x - m))) in *.
    apply Rabs_le_inv in Hm1. apply Rabs_le_inv in Hm2. apply Rabs_le.
    destruct (Rle_or_lt 0 xmm) as [Hs | Hs].
    - destruct (proj1 Hinc Hs). lra.
    - destruct (proj2 Hinc (Rlt_le _ _ Hs)). lra. }
  destruct (rnd_plus_fac m inc Gm (rnd_fmt _)) as (f5 & R5 & E5). rewrite E5.
  rewrite Rabs_mult, Rmult_comm. apply Rmult_le_compat; try apply Rabs_pos.
  - rewrite <- pu_1. apply rel_abs. exact R5.
  - exact Hsum.
Qed.

Lemma crude_step k (X m x : R) : 0 <= X -> Rabs m <= X * pu (k + 3) -> Rabs x <= X ->
  (1 + u64) * Rmax (Rabs m) (Rabs x + u64 * Rabs (x - m)) <= X * pu (k + 4).
Proof.
  intros HX Hm Hx. replace (k + 4)%nat with (S (k + 3)) by lia. rewrite pu_S.
  pose proof u64_pos as Hu. pose proof u64_small as Hus.
  rewrite (Rmult_comm (1 + u64)), <- Rmult_assoc. apply Rmult_le_compat_r; [lra|].
  apply Rmax_lub; [exact Hm|].
  assert (P3 : pu 3 <= pu (k + 3)) by (apply pu_mono; lia).
  assert (E3 : pu 3 = (1 + u64) * (1 + u64) * (1 + u64)) by (unfold pu; ring).
  assert (Hxm : Rabs (x - m) <= X + X * pu (k + 3)).
  { unfold Rminus. eapply Rle_trans; [apply Rabs_triang|]. rewrite Rabs_Ropp. lra. }
  assert (Q : (1 + u64) <= (1 - u64) * pu (k + 3)).
  { assert ((1 + u64) <= (1 - u64) * pu 3) by (rewrite E3; nra).
    assert ((1 - u64) * pu 3 <= (1 - u64) * pu (k + 3)) by (apply Rmult_le_compat_l; lra). lra. }
  assert (Q' : X * (1 + u64) <= X * ((1 - u64) * pu (k + 3))) by (apply Rmult_le_compat_l; lra).
  assert (Q'' : u64 * Rabs (x - m) <= u64 * (X + X * pu (k + 3))) by (apply Rmult_le_compat_l; lra).
  lra.
Qed.

(* the first accumulated observation: the step is exact *)
Lemma west_step_first (wsum m s x w : F64) :
  let wsum' := fadd wsum w in
  let inc := fmul (fdiv w wsum') (fsub x m) in
  let m' := fadd m inc in
  let s' := fadd s (fmul (fmul wsum inc) (fsub x m)) in
  fis_finite wsum' = true -> fis_finite m' = true -> fis_finite s' = true ->
  B2R wsum = 0 -> B2R m = 0 -> B2R s = 0 -> 0 < B2R w ->
  B2R wsum' = B2R w /\ B2R m' = B2R x /\ B2R s' = 0.
Proof.
  cbv zeta. intros Fwsum' Fm' Fs' W0 M0 S0 Hw.
  destruct (west_step_vals wsum m s x w Fwsum' Fm' Fs' ltac:(lra) Hw)
    as (_ & Ewsum' & _ & Er & Em' & Esinc & Es').
  cbv zeta in *.
  assert (E1 : B2R (fadd wsum w) = B2R w).
  { rewrite Ewsum', W0, Rplus_0_l. apply rnd_id. apply fmt_B2R. }
  assert (E2 : B2R (fdiv w (fadd wsum w)) = 1).
  { rewrite Er, E1. unfold Rdiv. rewrite Rinv_r by lra. apply (rnd_id 1 fmt_1). }
  split; [exact E1|]. split.
  - rewrite Em', E2, M0. apply mean_from_zero_one. apply fmt_B2R.
  - rewrite Es', Esinc, S0, W0, Rmult_0_l, rnd_0, Rmult_0_l, rnd_0, Rplus_0_l. apply rnd_0.
Qed.

(* ------------------------------------------------------------------ *)
(* 4. The invariant and the induction over the list                    *)
(* ------------------------------------------------------------------ *)
Definition rpair (xw : F64 * F64) : R * R := (B2R (fst xw), B2R (snd xw)).
Notation estep := (west_step R_ops).
Definition eW (st : R * R * R) : R := fst (fst st).
Definition eM (st : R * R * R) : R := snd (fst st).
Definition eQ (st : R * R * R) : R := snd st.
(* the exact state after the observations l *)
Definition erun (l : list (F64 * F64)) (st : R * R * R) : R * R * R := fold_left estep (map rpair l) st.
(* sum of the weights of l *)
Definition wsumR (l : list (F64 * F64)) : R := Rsum (map (fun xw => B2R (snd xw)) l).

Lemma conv_bound (W w M x X : R) : 0 <= W -> 0 < w -> Rabs M <= X -> Rabs x <= X ->
  Rabs (M + w / (W + w) * (x - M)) <= X.
Proof.
  intros HW Hw HM Hx. set (r := w / (W + w)).
  assert (I : 0 < / (W + w)) by (apply Rinv_0_lt_compat; lra).
  assert (E : (W + w) * / (W + w) = 1) by (apply Rinv_r; lra).
  assert (Hr : 0 <= r <= 1) by (unfold r, Rdiv; split; nra).
  apply Rabs_le_inv in HM. apply Rabs_le_inv in Hx. apply Rabs_le. split; nra.
Qed.

Lemma c_le_w (W w : R) : 0 <= W -> 0 < w -> 0 <= W * (w / (W + w)) <= w.
Proof.
  intros HW Hw.
  assert (I : 0 < / (W + w)) by (apply Rinv_0_lt_compat; lra).
  assert (E : (W + w) * / (W + w) = 1) by (apply Rinv_r; lra).
  unfold Rdiv. split; [apply Rmult_le_pos; [lra|]; apply Rmult_le_pos; lra|].
  assert (T : W * / (W + w) <= 1) by nra.
  replace (W * (w * / (W + w))) with (w * (W * / (W + w))) by ring.
  assert (T0 : 0 <= W * / (W + w)) by (apply Rmult_le_pos; lra). nra.
Qed.

Lemma run_ok_weights l : forall stf, west_run_ok stf l -> Forall (fun xw : F64 * F64 => 0 <= B2R (snd xw)) l.
Proof.
  induction l as [|xw l IH]; intros stf H; [constructor|].
  destruct H as [(_ & Hw & _) Hrest]. constructor; [exact Hw | exact (IH _ Hrest)].
Qed.

Lemma wsumR_nonneg l : Forall (fun xw : F64 * F64 => 0 <= B2R (snd xw)) l -> 0 <= wsumR l.
Proof.
  unfold wsumR. induction 1 as [|xw l Hw _ IH]; [cbn [map]; unfold Rsum; cbn [fold_right]; apply Rle_refl|].
  cbn [map]. rewrite Rsum_cons. apply Rplus_le_le_0_compat; [exact Hw | exact IH].
Qed.

Lemma wsumR_cons xw l : wsumR (xw :: l) = B2R (snd xw) + wsumR l.
Proof. unfold wsumR. cbn [map]. apply Rsum_cons. Qed.

Lemma estep_eW ste x w : 0 <= eW ste -> 0 <= w -> eW (estep ste (x, w)) = eW ste + w.
Proof.
  intros HW Hw. destruct ste as [[W M] Q]. unfold eW in *. cbn [fst] in *.
  destruct (Req_dec w 0) as [Z | NZ].
  - rewrite (KernelsR.west_step_zero _ x w Z). cbn [fst]. lra.
  - rewrite (KernelsR.west_step_nz W M Q x w NZ). reflexivity.
Qed.

Section Run.
(* N: number of observations; X >= |x_i| (non-zero weight); Dh >= |x_i - computed mean before i|;
   Dd >= |x_i - exact mean before i|; WT >= exact total weight *)
Variables (N : nat) (X Dh Dd WT : R).
Hypotheses (HX : 0 <= X) (HDh : 0 <= Dh) (HDd : 0 <= Dd) (HWT : 0 <= WT).

Let WhB : R := WT * pu N.
Lemma WhB_nonneg : 0 <= WhB.
Proof. unfold WhB. apply Rmult_le_pos; [exact HWT | apply Rlt_le, pu_pos]. Qed.

Definition Inv (k : nat) (stf : F64 * F64 * F64) (ste : R * R * R) : Prop :=
  0 <= eW ste /\ 0 <= eQ ste /\ Rabs (eM ste) <= X /\
  (exists fW : R, rel k fW /\ B2R (sw stf) = eW ste * fW) /\
  Rabs (B2R (sm stf) - eM ste) <= BM N X Dh k /\
  Rabs (B2R (ss stf) - eQ ste) <= BS N X Dh Dd WhB k (eW ste) (eQ ste) /\
  (eW ste = 0 -> B2R (sm stf) = 0 /\ B2R (ss stf) = 0 /\ eM ste = 0 /\ eQ ste = 0).

Lemma Inv_init : Inv 0 (fzero, fzero, fzero) (0, 0, 0).
Proof.
  unfold Inv, eW, eM, eQ, sw, sm, ss. cbn [fst snd]. rewrite B2R_fzero.
  split; [lra|]. split; [lra|]. split; [rewrite Rabs_R0; exact HX|].
  split; [exists 1; split; [apply rel_one | ring]|].
  replace (0 - 0) with 0 by ring. rewrite Rabs_R0.
  split; [apply BM_nonneg; assumption|].
  split; [apply BS_nonneg; try assumption; try lra; apply WhB_nonneg|].
  intros _. repeat split; reflexivity.
Qed.

Lemma Inv_S_mono k stf ste : Inv k stf ste -> Inv (S k) stf ste.
Proof.
  intros (H1 & H2 & H3 & (fW & RW & EW) & H5 & H6 & H7).
  split; [exact H1|]. split; [exact H2|]. split; [exact H3|].
  split; [exists fW; split; [apply (rel_mono k); [lia | exact RW] | exact EW]|].
  split; [|split; [|exact H7]].
  - eapply Rle_trans; [exact H5 | apply BM_S_mono; assumption].
  - eapply Rle_trans; [exact H6 | apply BS_S_mono; try assumption; apply WhB_nonneg].
Qed.

(* the side conditions of one step with a non-zero weight: magnitude of the observation and,
   unless it is the first one accumulated (that step is exact), its distance to the computed and
   to the exact running mean *)
Definition dev_ok1 (stf : F64 * F64 * F64) (ste : R * R * R) (xw : F64 * F64) : Prop :=
  B2R (snd xw) <> 0 ->
  Rabs (B2R (fst xw)) <= X /\
  (0 < eW ste -> Rabs (B2R (fst xw) - B2R (sm stf)) <= Dh /\ Rabs (B2R (fst xw) - eM ste) <= Dd).

Fixpoint devs_ok (stf : F64 * F64 * F64) (ste : R * R * R) (l : list (F64 * F64)) : Prop :=
  match l with
  | [] => True
  | xw :: l' => dev_ok1 stf ste xw /\ devs_ok (west_step OW stf xw) (estep ste (rpair xw)) l'
  end.

Lemma inv_step k stf ste xw : (k < N)%nat ->
  west_inv2 stf -> Inv k stf ste -> step_ok stf xw -> dev_ok1 stf ste xw ->
  eW ste + B2R (snd xw) <= WT ->
  Inv (S k) (west_step OW stf xw) (estep ste (rpair xw)).
Proof.
  intros Hk Hinv2 HI Hok Hdev HWle.
  destruct stf as [[wsum m] s]. destruct ste as [[W M] Q]. destruct xw as [x w].
  unfold rpair, dev_ok1 in *. cbn [fst snd] in *.
  destruct Hok as (Fw & Hw0 & Hfin'). cbn [snd] in Fw, Hw0.
  rewrite west_step_eq in *.
  destruct (feq w fzero) eqn:Ez.
  - (* skipped *)
    pose proof (feq_zero_B2R w Ez) as Z.
    rewrite (KernelsR.west_step_zero _ (B2R x) (B2R w) Z). apply Inv_S_mono. exact HI.
  - assert (Hwnz : B2R w <> 0).
    { intros E. apply (proj2 (feq_spec w fzero Fw eq_refl)) in E. rewrite E in Ez. discriminate Ez. }
    assert (Hw : 0 < B2R w) by lra.
    destruct (Hdev Hwnz) as (Hx & Hdevs). clear Hdev.
    rewrite (KernelsR.west_step_nz W M Q (B2R x) (B2R w) Hwnz).
    destruct Hinv2 as (_ & Hwsum & _). unfold sw in Hwsum. cbn [fst] in Hwsum.
    cbv zeta in Hfin'. unfold st_finite, sw, sm, ss in Hfin'. cbn [fst snd] in Hfin'.
    destruct Hfin' as (Fwsum' & Fm' & Fs').
    destruct HI as (HW & HQ & HM & (fW & RW & EWh) & HBM & HBS & HZ).
    unfold Inv, eW, eM, eQ, sw, sm, ss in *. cbn [fst snd] in *.
    destruct (Req_dec W 0) as [W0 | Wnz].
    { (* first accumulated observation: exact *)
      destruct (HZ W0) as (Zm & Zs & ZM & ZQ). subst W M Q.
      assert (Zw : B2R wsum = 0) by (rewrite EWh; ring).
      destruct (west_step_first wsum m s x w Fwsum' Fm' Fs' Zw Zm Zs Hw) as (F1 & F2 & F3).
      cbv zeta in F1, F2, F3. rewrite F1, F2, F3.
      replace (0 + B2R w / (0 + B2R w) * (B2R x - 0)) with (B2R x) by (field; lra).
      replace (0 + 0 * (B2R w / (0 + B2R w) * (B2R x - 0)) * (B2R x - 0)) with 0 by ring.
      split; [lra|]. split; [lra|]. split; [exact Hx|].
      split; [exists 1; split; [apply rel_one | ring]|].
      replace (B2R x - B2R x) with 0 by ring. replace (0 - 0) with 0 by ring. rewrite Rabs_R0.
      split; [apply BM_nonneg; assumption|].
      split; [apply BS_nonneg; try assumption; try lra; apply WhB_nonneg|].
      intros Z. lra. }
    assert (HWpos : 0 < W) by lra.
    destruct (Hdevs HWpos) as (HDhx & HDdx). clear Hdevs HZ.
    pose proof (west_step_fstep wsum m s x w Fwsum' Fm' Fs' Hwsum Hw) as FS. cbv zeta in FS.
    destruct FS as (f1 & f2 & f3 & f4 & f5 & f6 & f7 & f8 & h2 & h4 & h6 & h7 &
                    (R1 & R2 & R3 & R4 & R5 & R6 & R7 & R8) & (H2 & H4 & H6 & H7) & EWh' & Emh' & Esh').
    destruct (wsum_step k W (B2R w) fW HW Hw RW) as (fc & Rc & Rq & Efc).
    assert (EWh'' : B2R (fadd wsum w) = (W + B2R w) * fc * f1).
    { rewrite EWh', EWh, Efc. reflexivity. }
    rewrite EWh'' in Emh', Esh'. rewrite EWh in Esh'.
    set (M' := M + B2R w / (W + B2R w) * (B2R x - M)).
    assert (HM' : Rabs M' <= X) by (apply conv_bound; assumption).
    assert (HkN : (k <= N)%nat) by lia.
    assert (HG : g64 (k + 4) * Dh <= BM N X Dh k).
    { eapply Rle_trans; [|apply BM_base; assumption].
      apply Rmult_le_compat_r; [exact HDh|]. apply g64_mono. lia. }
    pose proof (mean_step k W (B2R w) M (B2R x) (B2R m) _ fc f1 f2 f3 f4 f5 h2 h4 (BM N X Dh k) Dh X
                  HW Hw Rc R1 R2 R3 R4 R5 H2 H4 Emh' HDhx HBM HG HM') as MS.
    assert (HWW : W <= WT) by lra.
    assert (HWh : W * fW <= WhB).
    { unfold WhB. apply Rmult_le_compat; [exact HW | apply Rlt_le, (rel_pos _ _ RW) | exact HWW |].
      eapply Rle_trans; [apply (rel_le _ _ RW) | apply pu_mono; exact HkN]. }
    pose proof (ssq_step k W (B2R w) M Q (B2R x) (B2R m) (B2R s) _ fW fc f1 f2 f3 f4 f6 f7 f8 h2 h4 h6 h7
                  (BM N X Dh k) (BS N X Dh Dd WhB k W Q) Dh Dd WhB
                  HW Hw HQ Rc Rq RW R1 R2 R3 R4 R6 R7 R8 H2 H4 H6 H7 Esh' HDhx HDdx HBM HBS HWh) as SS.
    cbv zeta in SS.
    set (c := W * (B2R w / (W + B2R w))) in *.
    set (cd2 := c * (B2R x - M) ^ 2) in *.
    assert (EQ' : Q + W * (B2R w / (W + B2R w) * (B2R x - M)) * (B2R x - M) = Q + cd2).
    { unfold cd2, c. ring. }
    rewrite EQ'.
    pose proof (c_le_w W (B2R w) HW Hw) as Hc. fold c in Hc.
    assert (Hcd2 : 0 <= cd2) by (unfold cd2; apply Rmult_le_pos; [lra | apply pow2_ge_0]).
    split; [lra|]. split; [lra|]. split; [exact HM'|].
    split.
    { exists (fc * f1). split; [|rewrite EWh''; ring].
      replace (S k) with (k + 1)%nat by lia. apply rel_mul; assumption. }
    split.
    { eapply Rle_trans; [exact MS | apply BM_step; assumption]. }
    split; [|intros Z; lra].
    eapply Rle_trans; [exact SS|].
    apply (BS_step N X Dh Dd WhB HX HDh HDd WhB_nonneg k W (B2R w) Q c cd2 (BM N X Dh k)); try assumption; try lra.
    split; [apply BM_nonneg; assumption | apply BM_mono; assumption].
Qed.

Lemma run_inv l : forall k stf ste, (k + length l <= N)%nat ->
  west_inv2 stf -> Inv k stf ste -> west_run_ok stf l -> devs_ok stf ste l ->
  eW ste + wsumR l <= WT ->
  Inv (k + length l) (fold_left (west_step OW) l stf) (erun l ste).
Proof.
  induction l as [|xw l IH]; intros k stf ste Hk Hinv2 HI Hok Hdev HWle.
  - cbn [length fold_left]. unfold erun. cbn [map fold_left]. rewrite Nat.add_0_r. exact HI.
  - cbn [length] in *. destruct Hok as [Hstep Hrest]. destruct Hdev as [Hd1 Hdrest].
    unfold erun. cbn [fold_left map].
    replace (k + S (length l))%nat with (S k + length l)%nat by lia.
    pose proof (run_ok_weights _ _ Hrest) as Hwl. pose proof (wsumR_nonneg l Hwl) as Hwl0.
    assert (Hw0 : 0 <= B2R (snd xw)) by (destruct Hstep as (_ & H & _); exact H).
    rewrite wsumR_cons in HWle.
    assert (HW0 : 0 <= eW ste) by (destruct HI as (H & _); exact H).
    apply IH.
    + lia.
    + exact (proj1 (west_step_inv stf xw Hinv2 Hstep)).
    + apply inv_step; try assumption; [lia | lra].
    + exact Hrest.
    + exact Hdrest.
    + destruct xw as [x w]. unfold rpair. cbn [fst snd] in *. rewrite estep_eW by assumption. lra.
Qed.
End Run.

(* ------------------------------------------------------------------ *)
(* 5. The exact run in closed form                                     *)
(* ------------------------------------------------------------------ *)
(* data-level quantities (l : the list of (observation, weight) pairs) *)
Definition dW (l : list (F64 * F64)) : R := wsumR l.
Definition dM (l : list (F64 * F64)) : R :=
  Rsum (map (fun xw => B2R (fst xw) * B2R (snd xw)) l) / dW l.
Definition dS (l : list (F64 * F64)) : R :=
  Rsum (map (fun xw => B2R (snd xw) * (B2R (fst xw) - dM l) ^ 2) l).

Lemma Rsum_bridge (l : list R) : KernelsR.Rsum l = Rsum l.
Proof.
  induction l as [|x l IH]; [reflexivity|].
  change (x + KernelsR.Rsum l = x + Rsum l). rewrite IH. reflexivity.
Qed.

Lemma okw_nonneg (l : list (R * R)) : forall W, 0 <= W -> Forall (fun xw => 0 <= snd xw) l -> KernelsR.okw W l.
Proof.
  induction l as [|xw l IH]; intros W HW HF; [exact I|].
  inversion HF as [|? ? Hw HF']; subst. cbn [KernelsR.okw]. split; [intros NZ; lra|].
  apply IH; [lra | exact HF'].
Qed.

Lemma erun_eW l : forall ste, 0 <= eW ste -> Forall (fun xw : F64 * F64 => 0 <= B2R (snd xw)) l ->
  eW (erun l ste) = eW ste + wsumR l.
Proof.
  induction l as [|[x w] l IH]; intros ste HW HF.
  - unfold erun, wsumR. cbn [map fold_left]. unfold Rsum. cbn [fold_right]. ring.
  - inversion HF as [|? ? Hw HF']; subst. cbn [snd] in Hw.
    unfold erun. cbn [map fold_left]. fold (erun l (estep ste (rpair (x, w)))).
    unfold rpair at 1. cbn [fst snd].
    rewrite IH; [|rewrite estep_eW by assumption; lra | exact HF'].
    rewrite estep_eW by assumption. rewrite wsumR_cons. cbn [snd]. ring.
Qed.

Lemma erun_closed l : Forall (fun xw : F64 * F64 => 0 <= B2R (snd xw)) l -> 0 < dW l ->
  erun l (0, 0, 0) = (dW l, dM l, dS l).
Proof.
  intros HF HWpos. unfold erun.
  set (l' := map rpair l).
  assert (E0 : KernelsR.S0 l' = dW l).
  { unfold KernelsR.S0, dW, wsumR, l'. rewrite Rsum_bridge, map_map. reflexivity. }
  assert (E1 : KernelsR.S1 l' = Rsum (map (fun xw => B2R (fst xw) * B2R (snd xw)) l)).
  { unfold KernelsR.S1, l'. rewrite Rsum_bridge, map_map. reflexivity. }
  assert (Hok : KernelsR.okw 0 l').
  { apply okw_nonneg; [lra|]. unfold l'. rewrite Forall_map. exact HF. }
  assert (Hne : KernelsR.S0 l' <> 0) by (rewrite E0; lra).
  pose proof (KernelsR.west_state l' Hok Hne) as G.
  destruct (fold_left estep l' (0, 0, 0)) as [[W m] s]. destruct G as (G0 & G1 & G2).
  assert (EM : m = dM l) by (rewrite G1, E0, E1; reflexivity).
  assert (ES : s = dS l).
  { pose proof (KernelsR.weighted_sq_dev l' (dM l)) as D.
    assert (D' : KernelsR.Rsum (map (fun xw : R * R => snd xw * (fst xw - dM l) ^ 2) l') = dS l).
    { unfold dS, l'. rewrite Rsum_bridge, map_map. reflexivity. }
    rewrite D' in D. rewrite D, G2. unfold dM. rewrite <- E1, <- E0. field. exact Hne. }
  rewrite G0, E0, EM, ES. reflexivity.
Qed.

Lemma dS_nonneg l : Forall (fun xw : F64 * F64 => 0 <= B2R (snd xw)) l -> 0 <= dS l.
Proof.
  intros HF. unfold dS. generalize (dM l). intros c.
  induction HF as [|xw l Hw _ IH]; [unfold Rsum; cbn [map fold_right]; apply Rle_refl|].
  cbn [map]. rewrite Rsum_cons. apply Rplus_le_le_0_compat; [|exact IH].
  apply Rmult_le_pos; [exact Hw | apply pow2_ge_0].
Qed.

(* ------------------------------------------------------------------ *)
(* 6. The side conditions from a bound X on the observations           *)
(* ------------------------------------------------------------------ *)
Definition obs_le (X : R) (l : list (F64 * F64)) : Prop :=
  Forall (fun xw : F64 * F64 => B2R (snd xw) <> 0 -> Rabs (B2R (fst xw)) <= X) l.

(* Dh for the a-priori version: |x - mh| <= X + X (1+u)^(N+3) *)
Definition DhX (N : nat) (X : R) : R := X * (1 + pu (N + 3)).

(* one step of the a-priori bound on the computed mean *)
Lemma crude_mean_step k (X : R) (HX : 0 <= X) stf xw :
  west_inv2 stf -> step_ok stf xw -> Rabs (B2R (sm stf)) <= X * pu (k + 3) ->
  (B2R (snd xw) <> 0 -> Rabs (B2R (fst xw)) <= X) ->
  Rabs (B2R (sm (west_step OW stf xw))) <= X * pu (S k + 3).
Proof.
  intros Hinv2 Hstep Hm Hx.
  destruct stf as [[wsum m] s]. destruct xw as [x w]. unfold sm in *. cbn [fst snd] in *.
  destruct Hstep as (Fw & Hw0 & Hfin'). cbn [snd] in Fw, Hw0.
  rewrite west_step_eq in *. destruct (feq w fzero) eqn:Ez.
  - cbn [fst snd]. eapply Rle_trans; [exact Hm|]. apply Rmult_le_compat_l; [exact HX|]. apply pu_mono. lia.
  - assert (Hwnz : B2R w <> 0).
    { intros E. apply (proj2 (feq_spec w fzero Fw eq_refl)) in E. rewrite E in Ez. discriminate Ez. }
    assert (Hw : 0 < B2R w) by lra. specialize (Hx Hwnz).
    destruct Hinv2 as (_ & Hwsum & _). unfold sw in Hwsum. cbn [fst] in Hwsum.
    cbv zeta in Hfin'. unfold st_finite, sw, sm, ss in Hfin'. cbn [fst snd] in Hfin'.
    destruct Hfin' as (Fwsum' & Fm' & Fs').
    destruct (west_step_vals wsum m s x w Fwsum' Fm' Fs' Hwsum Hw) as (_ & _ & Hge & Er & Em' & _).
    cbv zeta in *. cbn [fst snd]. rewrite Em'.
    pose proof (ratio_01 (B2R w) (B2R (fadd wsum w)) Hw Hge) as Hr01. rewrite <- Er in Hr01.
    eapply Rle_trans; [apply mean_crude; [apply fmt_B2R | apply fmt_B2R | exact Hr01]|].
    replace (S k + 3)%nat with (k + 4)%nat by lia. apply crude_step; assumption.
Qed.

Lemma crude_mean_run (X : R) (HX : 0 <= X) l : forall k stf,
  west_inv2 stf -> Rabs (B2R (sm stf)) <= X * pu (k + 3) -> west_run_ok stf l -> obs_le X l ->
  Rabs (B2R (sm (fold_left (west_step OW) l stf))) <= X * pu (k + length l + 3).
Proof.
  induction l as [|xw l IH]; intros k stf Hinv2 Hm Hok Hobs.
  - cbn [fold_left length]. rewrite Nat.add_0_r. exact Hm.
  - destruct Hok as [Hstep Hrest]. inversion Hobs as [|? ? Hx Hobs']; subst. cbn [fold_left length].
    replace (k + S (length l))%nat with (S k + length l)%nat by lia.
    apply IH; [exact (proj1 (west_step_inv stf xw Hinv2 Hstep)) | | exact Hrest | exact Hobs'].
    apply crude_mean_step; assumption.
Qed.

Lemma crude_devs (N : nat) (X : R) (HX : 0 <= X) l : forall k stf ste, (k + length l <= N)%nat ->
  west_inv2 stf -> Rabs (B2R (sm stf)) <= X * pu (k + 3) -> 0 <= eW ste -> Rabs (eM ste) <= X ->
  west_run_ok stf l -> obs_le X l ->
  devs_ok X (DhX N X) (2 * X) stf ste l.
Proof.
  induction l as [|xw l IH]; intros k stf ste Hk Hinv2 Hm HW HM Hok Hobs; [exact I|].
  cbn [length] in Hk. destruct Hok as [Hstep Hrest]. inversion Hobs as [|? ? Hx Hobs']; subst.
  cbn [devs_ok]. split.
  - intros NZ. specialize (Hx NZ). split; [exact Hx|].
    assert (P : pu (k + 3) <= pu (N + 3)) by (apply pu_mono; lia).
    assert (P' : X * pu (k + 3) <= X * pu (N + 3)) by (apply Rmult_le_compat_l; assumption).
    intros _. split; unfold Rminus; (eapply Rle_trans; [apply Rabs_triang|]); rewrite Rabs_Ropp; unfold DhX; lra.
  - pose proof (west_step_inv stf xw Hinv2 Hstep) as (Hinv2' & _ & _).
    pose proof (crude_mean_step k X HX stf xw Hinv2 Hstep Hm Hx) as Hm'.
    assert (Hw0 : 0 <= B2R (snd xw)) by (destruct Hstep as (_ & H & _); exact H).
    destruct ste as [[W M] Q]. destruct xw as [x w].
    unfold eW, eM, rpair in *. cbn [fst snd] in *.
    apply (IH (S k)); try assumption; try lia.
    + destruct (Req_dec (B2R w) 0) as [Z | NZ].
      * rewrite (KernelsR.west_step_zero _ (B2R x) (B2R w) Z). cbn [fst]. exact HW.
      * rewrite (KernelsR.west_step_nz W M Q (B2R x) (B2R w) NZ). cbn [fst]. lra.
    + destruct (Req_dec (B2R w) 0) as [Z | NZ].
      * rewrite (KernelsR.west_step_zero _ (B2R x) (B2R w) Z). cbn [fst snd]. exact HM.
      * rewrite (KernelsR.west_step_nz W M Q (B2R x) (B2R w) NZ). cbn [fst snd].
        apply conv_bound; [exact HW | lra | exact HM | exact (Hx NZ)].
Qed.

(* ------------------------------------------------------------------ *)
(* 7. Headline theorems                                                *)
(* ------------------------------------------------------------------ *)
Definition st0 : F64 * F64 * F64 := (fzero, fzero, fzero).
(* the computed state after the observations l *)
Definition frun (l : list (F64 * F64)) : F64 * F64 * F64 := fold_left (west_step OW) l st0.

Lemma frun_west_final data ws : frun (combine data ws) = west_final data ws.
Proof. reflexivity. Qed.

(* the largest magnitude of an observation *)
Definition Xmax (l : list (F64 * F64)) : R :=
  fold_right (fun xw acc => Rmax (Rabs (B2R (fst xw))) acc) 0 l.
Lemma Xmax_nonneg l : 0 <= Xmax l.
Proof.
  induction l as [|xw l IH]; [apply Rle_refl|]. cbn [Xmax fold_right].
  eapply Rle_trans; [exact IH | apply Rmax_r].
Qed.
Lemma obs_le_Xmax l : obs_le (Xmax l) l.
Proof.
  unfold obs_le. induction l as [|xw l IH]; [constructor|]. constructor.
  - intros _. cbn [Xmax fold_right]. apply Rmax_l.
  - eapply Forall_impl; [|exact IH]. intros a H NZ. eapply Rle_trans; [exact (H NZ)|].
    cbn [Xmax fold_right]. apply Rmax_r.
Qed.

(* the computed mean is at most X (1+u)^(n+3) in magnitude: no underflow term, no smallness
   hypothesis.  (It is NOT always within the range of the observations, see below.) *)
Theorem west_mean_magnitude (l : list (F64 * F64)) (X : R) :
  0 <= X -> west_run_ok st0 l -> obs_le X l ->
  Rabs (B2R (sm (frun l))) <= X * pu (length l + 3).
Proof.
  intros HX Hok Hobs.
  pose proof (crude_mean_run X HX l 0%nat st0 west_inv2_init) as H. cbn [plus] in H. apply H; try assumption.
  unfold sm, st0. cbn [fst snd]. rewrite B2R_fzero, Rabs_R0.
  apply Rmult_le_pos; [exact HX | apply Rlt_le, pu_pos].
Qed.

(* REFUTED: "the computed mean of the repaired loop stays within [min x, max x]" (the analogue of
   west_v1_mean_in_range without its no-absorption hypothesis).  When a weight absorbs the
   accumulated weight the ratio w / wsum' is exactly 1 and the new mean fl(m + fl(x - m)) can
   overshoot x: data [-1; 1.5 * 2^-53], weights [2^-100; 1] (Num/WestF64.v cx_data, cx_ws) give
   the final mean 2^-52 > max x = 0.75 * 2^-52. *)
Theorem west_mean_in_range_refuted : exists data ws : list F64,
  west_run_ok st0 (combine data ws) /\
  Forall (fun w => 0 < B2R w) ws /\
  Forall (fun x => fis_finite x = true /\ B2R x < B2R (sm (west_final data ws))) data.
Proof.
  exists cx_data, cx_ws. split; [exact west_run_ok_cx|].
  assert (Fm : fis_finite (sm (west_final cx_data cx_ws)) = true) by (vm_compute; reflexivity).
  split.
  - repeat constructor; apply (flt_spec fzero _ eq_refl); vm_compute; reflexivity.
  - repeat constructor; try (vm_compute; reflexivity);
      (apply flt_spec; [vm_compute; reflexivity | exact Fm | vm_compute; reflexivity]).
Qed.

(* PARAMETRIC FORM: for any bounds X, Dh, Dd on the observations and on their distances to the
   computed / exact running means, the invariant holds at the end of the run *)
Theorem west_err_param (l : list (F64 * F64)) (X Dh Dd : R) :
  0 <= X -> 0 <= Dh -> 0 <= Dd ->
  west_run_ok st0 l -> devs_ok X Dh Dd st0 (0, 0, 0) l ->
  Inv (length l) X Dh Dd (dW l) (length l) (frun l) (erun l (0, 0, 0)).
Proof.
  intros HX HDh HDd Hok Hdev.
  pose proof (wsumR_nonneg l (run_ok_weights _ _ Hok)) as HW.
  pose proof (run_inv (length l) X Dh Dd (dW l) HX HDh HDd HW l 0%nat st0 (0, 0, 0)) as H.
  cbn [plus] in H. apply H.
  - lia.
  - exact west_inv2_init.
  - apply Inv_init; assumption.
  - exact Hok.
  - exact Hdev.
  - unfold eW, dW. cbn [fst]. lra.
Qed.

(* A-PRIORI FORM: only a bound X on the magnitudes of the observations *)
Theorem west_err_apriori (l : list (F64 * F64)) (X : R) :
  0 <= X -> west_run_ok st0 l -> obs_le X l ->
  Inv (length l) X (DhX (length l) X) (2 * X) (dW l) (length l) (frun l) (erun l (0, 0, 0)).
Proof.
  intros HX Hok Hobs.
  assert (HDh : 0 <= DhX (length l) X).
  { unfold DhX. apply Rmult_le_pos; [exact HX|]. pose proof (pu_pos (length l + 3)). lra. }
  apply west_err_param; [exact HX | exact HDh | lra | exact Hok|].
  apply (crude_devs (length l) X HX l 0%nat); try assumption.
  - cbn [plus]. lia.
  - exact west_inv2_init.
  - unfold sm, st0. cbn [fst snd]. rewrite B2R_fzero, Rabs_R0.
    apply Rmult_le_pos; [exact HX | apply Rlt_le, pu_pos].
  - unfold eW. cbn [fst]. lra.
  - unfold eM. cbn [fst snd]. rewrite Rabs_R0. exact HX.
Qed.

(* (1) the weight sum *)
Theorem west_wsum_error (l : list (F64 * F64)) : west_run_ok st0 l ->
  Rabs (B2R (sw (frun l)) - dW l) <= g64 (length l) * dW l.
Proof.
  intros Hok.
  pose proof (west_err_apriori l (Xmax l) (Xmax_nonneg l) Hok (obs_le_Xmax l)) as (HW & _ & _ & (fW & RW & EW) & _).
  pose proof (run_ok_weights _ _ Hok) as HF.
  assert (H0 : 0 <= eW (0, 0, 0)) by (unfold eW; cbn [fst]; lra).
  rewrite (erun_eW l (0, 0, 0) H0 HF) in EW, HW.
  unfold eW in EW, HW. cbn [fst] in EW, HW. rewrite Rplus_0_l in EW, HW. fold (dW l) in EW, HW.
  rewrite EW. replace (dW l * fW - dW l) with (dW l * (fW - 1)) by ring.
  rewrite Rabs_mult, (Rabs_pos_eq _ HW), Rmult_comm.
  apply Rmult_le_compat_r; [exact HW | apply rel_err; exact RW].
Qed.

(* the explicit bounds of the a-priori form *)
Definition mean_bound (n : nat) (X : R) : R := BM n X (DhX n X) n.
Definition ssq_bound (n : nat) (X W Sq : R) : R := BS n X (DhX n X) (2 * X) (W * pu n) n W Sq.

(* (2) the running mean, (3) the sum of squares *)
Theorem west_mean_error (l : list (F64 * F64)) (X : R) :
  0 <= X -> west_run_ok st0 l -> obs_le X l -> 0 < dW l ->
  Rabs (B2R (sm (frun l)) - dM l) <= mean_bound (length l) X.
Proof.
  intros HX Hok Hobs HW.
  pose proof (west_err_apriori l X HX Hok Hobs) as (_ & _ & _ & _ & HM & _).
  rewrite (erun_closed l (run_ok_weights _ _ Hok) HW) in HM. exact HM.
Qed.

Theorem west_ssq_error (l : list (F64 * F64)) (X : R) :
  0 <= X -> west_run_ok st0 l -> obs_le X l -> 0 < dW l ->
  Rabs (B2R (ss (frun l)) - dS l) <= ssq_bound (length l) X (dW l) (dS l).
Proof.
  intros HX Hok Hobs HW.
  pose proof (west_err_apriori l X HX Hok Hobs) as (_ & _ & _ & _ & _ & HS & _).
  rewrite (erun_closed l (run_ok_weights _ _ Hok) HW) in HS. exact HS.
Qed.

Print Assumptions west_step_fstep.
Print Assumptions west_err_param.
Print Assumptions west_err_apriori.
Print Assumptions west_wsum_error.
Print Assumptions west_mean_error.
Print Assumptions west_ssq_error.
Print Assumptions west_mean_magnitude.
Print Assumptions west_mean_in_range_refuted.
