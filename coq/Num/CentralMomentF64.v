(* C07, floating-point half, PRE-REPAIR routine (defect D7): an a-priori forward-error bound in IEEE-754
   binary64 for central_moment_v0 (means.rs before the repair of central_moment_coefficients;
   Num/Kernels.v), i.e. with the binomial coefficients of order p + 1 = len(moments), of every order
   2 <= p <= 52.  The facts about a finite run (cm_run_facts) are shared with the repaired routine
   (binomials of order p, Num/CentralMomentRepF64.v).  Data of any length,
   any valid summation plan.  The only run-time hypothesis is that the RESULT is finite: finiteness
   of the mean, of every shifted datum, of every power, of every raw moment and coefficient follows.

   Notation (all exact real functions of the data xs; n = length xs; Num/MomentsErrF64.v):
     meanR xs          exact mean;   cmu xs k = (1/n) sum (x_i - meanR xs)^k   exact central moment
     mdelta xs         = g64(n+14) * (sum |x_i|)/n + eta64                     bound on |fl(mean) - mean|
     Amom xs k         = A_k = (1/n) sum (|x_i - meanR xs| + mdelta xs)^k
   The bound [cm_bound n p A dl] (cm_bound_explicit) is the sum of
     g64 p * A_p + p * dl * A_(p-1)         shifting by the computed mean instead of the mean
                                            (second summand: the conditioning term of the mean error)
     Eraw n p A                             rounding + underflow in the p-th raw moment
     kp * hornerR [cbd 1 .. cbd p] kp       the correction polynomial: |sum_(j>=1) C(p+1,j) r_(p-j) corr^j|
                                            with |corr| <= kp = kappa (the computed mean of the shifted data)
     g64(2p+2) * hornerR [cbd 0 .. cbd p] kp + hornerU (p+1) kp      rounding and underflow in Horner's rule
   where cbd j bounds the j-th coefficient |fl(C(p+1,j) * r_(p-j))| and Rbd k bounds |r_k|.
   The binomial coefficients are those of order p+1 = len(moments), as coded. *)
From Flocq Require Import Core BinarySingleNaN Plus_error Relative.
Require Import Reals Lra Lia ZArith Psatz Bool List Arith Permutation.
From NS Require Import Num.F64 Num.Ops Num.F64Inst Num.Kernels Num.SumBridge Num.SumF64
  Quantile.IndexProofs Quantile.InterpF64 Num.DeviationF64 Num.MeansF64 Num.CovF64 Num.PowiF64
  Num.MomentsErrF64 Num.HornerF64.
Import ListNotations.
Open Scope R_scope.

Local Instance prec64_gt_0C : Prec_gt_0 53 := Hprec64.
Local Instance vexp64C : Valid_exp (SpecFloat.fexp 53 1024) := fexp_correct 53 1024 Hprec64.

(* ------------------------------------------------------------------ *)
(* 1. The bound                                                         *)
(* ------------------------------------------------------------------ *)
(* error of the k-th computed raw moment of the shifted data *)
Definition Eraw (n k : nat) (A : nat -> R) : R :=
  g64 (n + k + 14) * ((1 + g64 k) * A k) + (INR k * (1 + g64 (n + k + 14)) + 1) * eta64.
(* magnitude of the k-th computed raw moment *)
Definition Rbd (n k : nat) (A : nat -> R) : R := (1 + g64 k) * A k + Eraw n k A.
(* magnitude of the correction term  - r_1 *)
Definition kappa (n : nat) (A : nat -> R) (dl : R) : R := dl + u64 * A 1%nat + Eraw n 1 A.
(* magnitude of the j-th coefficient fl(C(p+1, j) * r_(p-j)) *)
(* magnitude of the j-th coefficient fl(C(q, j) * r_(p-j)); q = p + 1 before the repair, q = p after *)
Definition cbdq (q n p : nat) (A : nat -> R) (j : nat) : R :=
  INR (binom q j) * Rbd n (p - j) A * (1 + u64) + eta64.
Definition cbd (n p : nat) (A : nat -> R) (j : nat) : R := cbdq (S p) n p A j.

Definition cm_bound (n p : nat) (A : nat -> R) (dl : R) : R :=
  let kp := kappa n A dl in
  g64 p * A p + INR p * dl * A (p - 1)%nat + Eraw n p A
  + kp * hornerR (map (cbd n p A) (seq 1 p)) kp
  + g64 (2 * S p) * hornerR (map (cbd n p A) (seq 0 (S p))) kp
  + hornerU (S p) kp.

Lemma Eraw_nonneg n k A : 0 <= A k -> 0 <= Eraw n k A.
Proof.
  intros HA. unfold Eraw. pose proof (g64_nonneg (n + k + 14)). pose proof (g64_nonneg k).
  pose proof eta64_pos. pose proof (pos_INR k).
  apply Rplus_le_le_0_compat.
  - apply Rmult_le_pos; [assumption|]. apply Rmult_le_pos; lra.
  - apply Rmult_le_pos; [|lra]. assert (0 <= INR k * (1 + g64 (n + k + 14))) by (apply Rmult_le_pos; lra). lra.
Qed.
Lemma Rbd_nonneg n k A : 0 <= A k -> 0 <= Rbd n k A.
Proof.
  intros HA. unfold Rbd. pose proof (Eraw_nonneg n k A HA). pose proof (g64_nonneg k).
  assert (0 <= (1 + g64 k) * A k) by (apply Rmult_le_pos; lra). lra.
Qed.
Lemma cbdq_nonneg q n p A j : 0 <= A (p - j)%nat -> 0 <= cbdq q n p A j.
Proof.
  intros HA. unfold cbdq. pose proof (Rbd_nonneg n (p - j) A HA). pose proof u64_pos. pose proof eta64_pos.
  pose proof (pos_INR (binom q j)).
  assert (0 <= INR (binom q j) * Rbd n (p - j) A * (1 + u64)).
  { apply Rmult_le_pos; [apply Rmult_le_pos; assumption|lra]. }
  lra.
Qed.
Lemma cbd_nonneg n p A j : 0 <= A (p - j)%nat -> 0 <= cbd n p A j.
Proof. apply cbdq_nonneg. Qed.

(* from the error of a computed raw moment to the bounds used below *)
Lemma raw_bounds (r rhok alphak Ak : R) (n k : nat) :
  Rabs (r - rhok) <= g64 (n + k + 14) * alphak + (INR k * (1 + g64 (n + k + 14)) + 1) * eta64 ->
  Rabs rhok <= alphak -> alphak <= (1 + g64 k) * Ak ->
  forall A : nat -> R, A k = Ak -> Rabs r <= Rbd n k A /\ Rabs (r - rhok) <= Eraw n k A.
Proof.
  intros He Hr Ha A EA. unfold Rbd, Eraw. rewrite EA.
  pose proof (g64_nonneg (n + k + 14)) as G.
  assert (Q : g64 (n + k + 14) * alphak <= g64 (n + k + 14) * ((1 + g64 k) * Ak)).
  { apply Rmult_le_compat_l; assumption. }
  assert (E : Rabs (r - rhok) <= g64 (n + k + 14) * ((1 + g64 k) * Ak)
                                  + (INR k * (1 + g64 (n + k + 14)) + 1) * eta64) by lra.
  split; [|exact E].
  replace r with (rhok + (r - rhok)) at 1 by ring. eapply Rle_trans; [apply Rabs_triang|]. lra.
Qed.

Lemma nth_map_seq0 {B} (f : nat -> B) n i d : (i < n)%nat -> nth i (map f (seq 0 n)) d = f i.
Proof.
  intros Hi. rewrite (nth_indep _ d (f 0%nat)) by (rewrite map_length, seq_length; exact Hi).
  rewrite map_nth, seq_nth by exact Hi. reflexivity.
Qed.

Lemma binom_Z_bound q j : (q <= 53)%nat -> (Z.of_nat (binom q j) <= 2 ^ 53)%Z.
Proof.
  intros Hp. pose proof (binom_le_pow q j) as B.
  apply Z.le_trans with (Z.of_nat (2 ^ q)); [apply Nat2Z.inj_le; exact B|].
  rewrite Nat2Z.inj_pow. change (Z.of_nat 2) with 2%Z. apply Z.pow_le_mono_r; lia.
Qed.

(* ------------------------------------------------------------------ *)
(* 2. Shape of the computation                                          *)
(* ------------------------------------------------------------------ *)
Section CM.
Variables lt et : list (Z * Z).
Let O := f64_ops lt et.

(* the k-th entry of [moments O pl a p] *)
Definition mom_k (pl : plan) (a : list F64) (k : nat) : F64 :=
  match k with
  | 0%nat => fone
  | 1%nat => mean O pl a
  | _ => raw_mom lt et (plan_of_map pl (length a)) a k
  end.

Lemma moments_as_map pl a p : (1 <= p)%nat -> moments O pl a p = map (mom_k pl a) (seq 0 (S p)).
Proof.
  intros Hp. unfold moments. destruct p as [|p]; [lia|]. cbn [Nat.leb].
  replace (S p - 1)%nat with p by lia. cbn [seq map app].
  f_equal. f_equal. apply map_ext_in. intros k Hk. apply in_seq in Hk.
  destruct k as [|[|k]]; try lia. reflexivity.
Qed.

Lemma central_moment_v0_shape pl xs p : (2 <= p)%nat ->
  let rm := mom_k (plan_of_map pl (length xs)) (dev xs (mean O pl xs)) in
  central_moment_v0 O pl xs p
  = horner O (map (fun j => fmul (f64_of_Z (Z.of_nat (binom (S p) j))) (rm (p - j)%nat)) (seq 0 (S p)))
             (fneg (rm 1%nat)).
Proof.
  intros Hp rm. destruct p as [|[|p]]; try lia.
  set (P := S (S p)).
  change (central_moment_v0 O pl xs P)
    with (horner O (central_moment_coefficients_v0 O (moments O (plan_of_map pl (length xs)) (dev xs (mean O pl xs)) P))
                   (fneg (nth 1 (moments O (plan_of_map pl (length xs)) (dev xs (mean O pl xs)) P) fzero))).
  rewrite moments_as_map by (unfold P; lia). fold rm.
  rewrite cmc_v0_as_map, nth_map_seq0 by (unfold P; lia). reflexivity.
Qed.

(* the repaired routine: binomials of order p *)
Lemma central_moment_shape pl xs p : (2 <= p)%nat ->
  let rm := mom_k (plan_of_map pl (length xs)) (dev xs (mean O pl xs)) in
  central_moment O pl xs p
  = horner O (map (fun j => fmul (f64_of_Z (Z.of_nat (binom p j))) (rm (p - j)%nat)) (seq 0 (S p)))
             (fneg (rm 1%nat)).
Proof.
  intros Hp rm. destruct p as [|[|p]]; try lia.
  set (P := S (S p)).
  change (central_moment O pl xs P)
    with (horner O (central_moment_coefficients O (moments O (plan_of_map pl (length xs)) (dev xs (mean O pl xs)) P))
                   (fneg (nth 1 (moments O (plan_of_map pl (length xs)) (dev xs (mean O pl xs)) P) fzero))).
  rewrite moments_as_map by (unfold P; lia). fold rm.
  rewrite cmc_as_map, nth_map_seq0 by (unfold P; lia). reflexivity.
Qed.

(* ------------------------------------------------------------------ *)
(* 3. Facts about a run whose result is finite                          *)
(* ------------------------------------------------------------------ *)
Lemma cm_run_facts q pl (xs : list F64) p n :
  plan_ok pl n -> n = length xs -> (1 <= n)%nat -> (Z.of_nat n <= 2 ^ 53)%Z ->
  (2 <= p)%nat -> (q <= 53)%nat ->
  let m := mean O pl xs in let ds := dev xs m in
  let rm := mom_k (plan_of_map pl (length xs)) ds in
  let cf := fun j => fmul (f64_of_Z (Z.of_nat (binom q j))) (rm (p - j)%nat) in
  let corr := fneg (rm 1%nat) in
  let A := Amom xs in let dl := mdelta xs in
  fin (horner O (map cf (seq 0 (S p))) corr) = true ->
  Rabs (B2R m - meanR xs) <= dl /\
  Forall (fun x => fin (fsub x m) = true) xs /\
  (forall k, (k <= p)%nat ->
     Rabs (B2R (rm k)) <= Rbd n k A /\ ((1 <= k)%nat -> Rabs (B2R (rm k) - rho ds k) <= Eraw n k A)) /\
  B2R corr = - B2R (rm 1%nat) /\ Rabs (B2R corr) <= kappa n A dl /\
  (forall j, (j <= p)%nat -> B2R (cf j) = rnd (INR (binom q j) * B2R (rm (p - j)%nat))) /\
  Rabs (B2R (horner O (map cf (seq 0 (S p))) corr) - hornerR (map B2R (map cf (seq 0 (S p)))) (B2R corr))
    <= g64 (2 * S p) * hornerR (map (fun c => Rabs (B2R c)) (map cf (seq 0 (S p)))) (Rabs (B2R corr))
       + hornerU (S p) (Rabs (B2R corr)).
Proof.
  intros HP En H1 H2 Hp Hq. cbv zeta. intros Hf.
  set (m := mean O pl xs) in *. set (ds := dev xs m) in *. set (pl' := plan_of_map pl (length xs)) in *.
  set (rm := mom_k pl' ds) in *.
  set (cf := fun j => fmul (f64_of_Z (Z.of_nat (binom q j))) (rm (p - j)%nat)) in *.
  set (corr := fneg (rm 1%nat)) in *.
  destruct (horner_error lt et (map cf (seq 0 (S p))) corr Hf) as (Fcs & _ & EH).
  rewrite map_length, seq_length in EH.
  assert (Hb : forall j, (Z.of_nat (binom q j) <= 2 ^ 53)%Z) by (intros j; apply binom_Z_bound; exact Hq).
  (* every coefficient, hence every raw moment, is finite *)
  assert (Fcf : forall j, (j <= p)%nat -> fin (cf j) = true).
  { intros j Hj. rewrite Forall_forall in Fcs. apply Fcs. apply in_map, in_seq. lia. }
  assert (Frm : forall k, (k <= p)%nat -> fin (rm k) = true).
  { intros k Hk. pose proof (Fcf (p - k)%nat ltac:(lia)) as F. unfold cf in F.
    replace (p - (p - k))%nat with k in F by lia. exact (proj1 (coef_val _ _ (Hb _) F)). }
  assert (Ld : length ds = n) by (unfold ds, dev; rewrite map_length; symmetry; exact En).
  assert (HP' : plan_ok pl' n) by (unfold pl'; rewrite <- En; apply plan_of_map_ok; exact HP).
  (* the first raw moment; the shifted data and the mean are finite *)
  pose proof (Frm 1%nat ltac:(lia)) as F1. change (rm 1%nat) with (mean O pl' ds) in F1.
  destruct (raw_moment1_error lt et pl' ds n HP' (eq_sym Ld) H1 H2 F1) as [E1 Fds].
  assert (Hfin : Forall (fun x => fin (fsub x m) = true) xs).
  { unfold ds, dev in Fds. rewrite Forall_map in Fds. exact Fds. }
  assert (Fm : fin m = true).
  { destruct xs as [|x0 xs']; [cbn [length] in En; lia|].
    exact (proj2 (fsub_finite_args _ _ (Forall_inv Hfin))). }
  pose proof (mean_delta lt et pl xs n HP En H1 H2 Fm) as Hm. fold m in Hm.
  assert (Hn' : (1 <= length xs)%nat) by lia.
  set (A := Amom xs) in *. set (dl := mdelta xs) in *.
  assert (A0 : forall k, 0 <= A k) by (intros k; apply Amom_nonneg).
  (* bounds on the computed raw moments *)
  assert (RB : forall k, (k <= p)%nat ->
             Rabs (B2R (rm k)) <= Rbd n k A /\ ((1 <= k)%nat -> Rabs (B2R (rm k) - rho ds k) <= Eraw n k A)).
  { intros k Hk. destruct k as [|[|k]].
    - split; [|lia]. change (rm 0%nat) with fone. rewrite (proj2 fone_spec), Rabs_R1.
      unfold Rbd. pose proof (Eraw_nonneg n 0 A (A0 0%nat)). unfold A at 1. rewrite (Amom_0 xs Hn'), g64_0. lra.
    - change (rm 1%nat) with (mean O pl' ds).
      destruct (raw_bounds _ _ _ (A 1%nat) n 1 E1 (rho_le_alpha xs m Hn' 1) (alpha_le_Amom xs m Hn' Hm Hfin 1) A eq_refl)
        as [B1 B2].
      split; [exact B1|intros _; exact B2].
    - set (k2 := S (S k)) in *.
      pose proof (Frm k2 Hk) as Fk. change (rm k2) with (raw_mom lt et (plan_of_map pl' (length ds)) ds k2) in Fk |- *.
      assert (HPm : plan_ok (plan_of_map pl' (length ds)) n) by (rewrite Ld; apply plan_of_map_ok; exact HP').
      destruct (raw_moment_error lt et _ ds n k2 HPm (eq_sym Ld) H1 H2 Fk) as [Ek _].
      destruct (raw_bounds _ _ _ (A k2) n k2 Ek (rho_le_alpha xs m Hn' k2) (alpha_le_Amom xs m Hn' Hm Hfin k2) A eq_refl)
        as [B1 B2].
      split; [exact B1|intros _; exact B2]. }
  (* the correction term *)
  assert (Ecorr : B2R corr = - B2R (rm 1%nat)) by (unfold corr, fneg; apply B2R_Bopp).
  assert (Hcorr : Rabs (B2R corr) <= kappa n A dl).
  { rewrite Ecorr, Rabs_Ropp.
    destruct (RB 1%nat ltac:(lia)) as [_ B2]. specialize (B2 (le_n 1)).
    pose proof (shifted_mean_small xs m Hn' Hm Hfin) as Sm. fold ds dl A in Sm.
    replace (B2R (rm 1%nat)) with (rho ds 1 + (B2R (rm 1%nat) - rho ds 1)) by ring.
    eapply Rle_trans; [apply Rabs_triang|]. unfold kappa. lra. }
  split; [exact Hm|]. split; [exact Hfin|]. split; [exact RB|].
  split; [exact Ecorr|]. split; [exact Hcorr|]. split; [|exact EH].
  intros j Hj. pose proof (Fcf j Hj) as F. unfold cf in F |- *.
  exact (proj2 (coef_val _ _ (Hb j) F)).
Qed.

(* ------------------------------------------------------------------ *)
(* 4. The headline theorem                                              *)
(* ------------------------------------------------------------------ *)
Theorem central_moment_v0_error pl (xs : list F64) p n :
  plan_ok pl n -> n = length xs -> (1 <= n)%nat -> (Z.of_nat n <= 2 ^ 53)%Z ->
  (2 <= p <= 52)%nat -> fin (central_moment_v0 O pl xs p) = true ->
  Rabs (B2R (central_moment_v0 O pl xs p) - cmu xs p) <= cm_bound n p (Amom xs) (mdelta xs).
Proof.
  intros HP En H1 H2 Hp Hf.
  rewrite central_moment_v0_shape in Hf |- * by lia. cbv zeta in Hf |- *.
  destruct (cm_run_facts (S p) pl xs p n HP En H1 H2 ltac:(lia) ltac:(lia) Hf) as (Hm & Hfin & RB & Ecorr & Hcorr & Ecf & EH).
  cbv zeta in *.
  set (m := mean O pl xs) in *. set (ds := dev xs m) in *.
  set (rm := mom_k (plan_of_map pl (length xs)) ds) in *.
  set (cf := fun j => fmul (f64_of_Z (Z.of_nat (binom (S p) j))) (rm (p - j)%nat)) in *.
  set (corr := fneg (rm 1%nat)) in *.
  set (A := Amom xs) in *. set (dl := mdelta xs) in *.
  assert (Hn' : (1 <= length xs)%nat) by lia.
  set (kp := kappa n A dl) in *.
  assert (kp0 : 0 <= kp) by (pose proof (Rabs_pos (B2R corr)); lra).
  (* the coefficients *)
  assert (Hcf : forall j, In j (seq 0 (S p)) -> 0 <= Rabs (B2R (cf j)) <= cbd n p A j).
  { intros j Hj. apply in_seq in Hj. split; [apply Rabs_pos|].
    unfold cf. rewrite (Ecf j ltac:(lia)).
    eapply Rle_trans; [apply coef_abs|]. unfold cbd, cbdq. apply Rplus_le_compat_r.
    apply Rmult_le_compat_r; [pose proof u64_pos; lra|].
    apply Rmult_le_compat_l; [apply pos_INR|]. apply (RB (p - j)%nat). lia. }
  (* Horner: rounding *)
  set (res := B2R (horner O (map cf (seq 0 (S p))) corr)) in *.
  set (X := B2R corr) in *.
  assert (XX : 0 <= Rabs X <= kp) by (split; [apply Rabs_pos|exact Hcorr]).
  assert (T1 : Rabs (res - hornerR (map B2R (map cf (seq 0 (S p)))) X)
               <= g64 (2 * S p) * hornerR (map (cbd n p A) (seq 0 (S p))) kp + hornerU (S p) kp).
  { eapply Rle_trans; [exact EH|]. apply Rplus_le_compat.
    - apply Rmult_le_compat_l; [apply g64_nonneg|]. rewrite map_map.
      apply (hornerR_map_le (fun j => Rabs (B2R (cf j))) (cbd n p A)); assumption.
    - apply hornerU_mono. exact XX. }
  (* Horner: the polynomial is r_p + corr * (...) *)
  cbn [seq map] in T1 |- *. rewrite hornerR_cons in T1.
  assert (Ec0 : B2R (cf 0%nat) = B2R (rm p)).
  { unfold cf. rewrite (Ecf 0%nat ltac:(lia)).
    rewrite binom_0_r, Nat.sub_0_r. simpl INR. rewrite Rmult_1_l. apply rnd_id, fmt_B2R. }
  rewrite Ec0 in T1.
  set (hT := hornerR (map B2R (map cf (seq 1 p))) X) in *.
  assert (T2 : Rabs (X * hT) <= kp * hornerR (map (cbd n p A) (seq 1 p)) kp).
  { rewrite Rabs_mult. apply Rmult_le_compat; try apply Rabs_pos; [exact Hcorr|].
    unfold hT. eapply Rle_trans; [apply hornerR_abs|]. rewrite !map_map.
    apply (hornerR_map_le (fun j => Rabs (B2R (cf j))) (cbd n p A)); [|exact XX].
    intros j Hj. apply Hcf. apply in_seq in Hj. apply in_seq. lia. }
  destruct (RB p ltac:(lia)) as [_ T3]. specialize (T3 ltac:(lia)).
  pose proof (shifted_moment_vs_central xs m Hn' Hm Hfin p) as T4. fold ds dl A in T4.
  unfold cm_bound. fold kp. cbn [seq map].
  replace (res - cmu xs p)
    with ((res - (B2R (rm p) + X * hT)) + X * hT + (B2R (rm p) - rho ds p) + (rho ds p - cmu xs p)) by ring.
  eapply Rle_trans; [apply Rabs_triang|].
  eapply Rle_trans; [apply Rplus_le_compat_r, Rabs_triang|].
  eapply Rle_trans; [apply Rplus_le_compat_r, Rplus_le_compat_r, Rabs_triang|].
  rewrite hornerR_cons. rewrite hornerR_cons in T1. lra.
Qed.
End CM.

Print Assumptions central_moment_v0_error.
