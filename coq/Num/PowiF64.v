(* Forward error of powi (compiler-rt __powidf2: square and multiply, Num/Kernels.v powi_loop /
   powi) in IEEE-754 binary64, for every exponent k and every base:

     |powi x k - x^k| <= g64 k * |x|^k + k * (1 + g64 k) * eta64        (powi_error)

   The relative part counts the rounding errors with multiplicity: the square-and-multiply tree for
   x^k has at most k multiplications along any "error path" (x^(2^j) carries 2^j - 1 of them).
   The absolute part is the underflow contribution: it is absent when 1 <= |x| (no product of
   numbers of magnitude >= 1 underflows; powi_error_big), and when |x| <= 1 every intermediate
   value has magnitude <= 1, so an absolute error eta64 committed at one multiplication is never
   amplified. *)
From Flocq Require Import Core BinarySingleNaN Plus_error Relative.
Require Import Reals Lra Lia ZArith Psatz Bool List Arith.
From NS Require Import Num.F64 Num.Ops Num.F64Inst Num.Kernels Num.SumBridge Num.SumF64
  Quantile.IndexProofs Quantile.InterpF64 Num.DeviationF64 Num.MeansF64.
Import ListNotations.
Open Scope R_scope.

Local Instance prec64_gt_0P : Prec_gt_0 53 := Hprec64.
Local Instance vexp64P : Valid_exp (SpecFloat.fexp 53 1024) := fexp_correct 53 1024 Hprec64.

(* ------------------------------------------------------------------ *)
(* 0. g64 arithmetic                                                    *)
(* ------------------------------------------------------------------ *)
Lemma g64_1p k : 1 + g64 k = (1 + u64) ^ k.
Proof. unfold g64. ring. Qed.
Lemma g64_add a b : (1 + g64 a) * (1 + g64 b) = 1 + g64 (a + b).
Proof. rewrite !g64_1p, pow_add. reflexivity. Qed.
Lemma g64_0 : g64 0 = 0.
Proof. unfold g64. simpl. ring. Qed.
Lemma g64_1 : g64 1 = u64.
Proof. unfold g64. simpl. ring. Qed.
Lemma g64_1p_pos k : 1 <= 1 + g64 k.
Proof. pose proof (g64_nonneg k). lra. Qed.
Lemma g64_S' k : 1 + g64 (S k) = (1 + g64 k) * (1 + u64).
Proof. rewrite !g64_1p. simpl. ring. Qed.
Lemma g64_mul_le a b : g64 a * (1 + g64 b) <= g64 (a + b).
Proof. pose proof (g64_add a b). pose proof (g64_nonneg b). lra. Qed.

Lemma fmt_one : fmt 1.
Proof. change 1 with (bpow radix2 0). apply fmt_bpow. lia. Qed.

(* ------------------------------------------------------------------ *)
(* 1. Real-number lemmas: a product of two approximations, one rounding *)
(* ------------------------------------------------------------------ *)
Lemma mul_err_gen (R0 A rho alpha Gr Ga Ur Ua : R) :
  0 <= Gr -> 0 <= Ga -> 0 <= Ur -> 0 <= Ua ->
  Rabs (R0 - rho) <= Gr * Rabs rho + Ur ->
  Rabs (A - alpha) <= Ga * Rabs alpha + Ua ->
  Rabs (R0 * A - rho * alpha)
    <= ((1 + Gr) * (1 + Ga) - 1) * (Rabs rho * Rabs alpha) + (1 + Gr) * Rabs rho * Ua + Ur * Rabs A.
Proof.
  intros HGr HGa HUr HUa HR HA.
  replace (R0 * A - rho * alpha) with ((R0 - rho) * A + rho * (A - alpha)) by ring.
  eapply Rle_trans; [apply Rabs_triang|]. rewrite !Rabs_mult.
  assert (HAA : Rabs A <= Rabs alpha + Rabs (A - alpha)).
  { replace A with (alpha + (A - alpha)) at 1 by ring. apply Rabs_triang. }
  set (P := Rabs rho) in *. set (Q := Rabs alpha) in *.
  set (dR := Rabs (R0 - rho)) in *. set (dA := Rabs (A - alpha)) in *. set (aA := Rabs A) in *.
  assert (P0 : 0 <= P) by apply Rabs_pos. assert (Q0 : 0 <= Q) by apply Rabs_pos.
  assert (A0 : 0 <= aA) by apply Rabs_pos.
  assert (T1 : dR * aA <= (Gr * P + Ur) * aA) by (apply Rmult_le_compat_r; assumption).
  assert (T2 : (Gr * P) * aA <= (Gr * P) * ((1 + Ga) * Q + Ua)).
  { apply Rmult_le_compat_l; [apply Rmult_le_pos; assumption | lra]. }
  assert (T3 : P * dA <= P * (Ga * Q + Ua)) by (apply Rmult_le_compat_l; assumption).
  lra.
Qed.

Lemma round_err_gen (V T e e' : R) : Rabs e <= u64 -> Rabs e' <= eta64 ->
  Rabs (V * (1 + e) + e' - T) <= Rabs (V - T) * (1 + u64) + Rabs T * u64 + Rabs e'.
Proof.
  intros He He'. pose proof u64_pos as Hu.
  replace (V * (1 + e) + e' - T) with ((V - T) * (1 + e) + T * e + e') by ring.
  eapply Rle_trans; [apply Rabs_triang|]. apply Rplus_le_compat_r.
  eapply Rle_trans; [apply Rabs_triang|]. rewrite !Rabs_mult.
  assert (B2 : Rabs (1 + e) <= 1 + u64).
  { eapply Rle_trans; [apply Rabs_triang|]. rewrite Rabs_R1. lra. }
  apply Rplus_le_compat; apply Rmult_le_compat; try apply Rabs_pos; try assumption; apply Rle_refl.
Qed.

(* ------------------------------------------------------------------ *)
(* 2. The invariant of the loop                                         *)
(* ------------------------------------------------------------------ *)
(* [V] approximates x^p with [c] rounding errors; [sm = true]: the small regime |x| <= 1 (all
   values of magnitude <= 1, absolute errors allowed), [sm = false]: the big regime 1 <= |x|
   (all values of magnitude >= 1, no underflow, purely relative errors). *)
Definition pw_inv (sm : bool) (x V : R) (p c : nat) : Prop :=
  (if sm then Rabs V <= 1 else 1 <= Rabs V) /\
  Rabs (V - x ^ p) <= g64 c * Rabs x ^ p + (if sm then INR c * (1 + g64 c) * eta64 else 0).

Lemma pw_inv_mono sm x V p c c' : (c <= c')%nat -> pw_inv sm x V p c -> pw_inv sm x V p c'.
Proof.
  intros Hc [H1 H2]. split; [exact H1|]. eapply Rle_trans; [exact H2|].
  pose proof (g64_mono c c' Hc) as Gm. pose proof (g64_nonneg c) as G0.
  assert (P0 : 0 <= Rabs x ^ p) by (apply pow_le, Rabs_pos).
  apply Rplus_le_compat.
  - apply Rmult_le_compat_r; assumption.
  - destruct sm; [|lra].
    pose proof eta64_pos as He. apply Rmult_le_compat_r; [lra|].
    apply Rmult_le_compat; [apply pos_INR|lra|apply le_INR; exact Hc|lra].
Qed.

Lemma pw_inv_one sm x : pw_inv sm x 1 0 0.
Proof.
  split; [rewrite Rabs_R1; destruct sm; lra|].
  simpl. rewrite Rminus_diag_eq, Rabs_R0, g64_0 by reflexivity. destruct sm; lra.
Qed.

Lemma pw_inv_base (sm : bool) (x : R) : (if sm then Rabs x <= 1 else 1 <= Rabs x) -> pw_inv sm x x 1 0.
Proof.
  intros Hx. split; [exact Hx|].
  rewrite pow_1, Rminus_diag_eq, Rabs_R0, g64_0 by reflexivity. simpl. destruct sm; lra.
Qed.

Lemma rnd_abs_le_1 (v : R) : Rabs v <= 1 -> Rabs (rnd v) <= 1.
Proof. intros H. rewrite <- rnd_abs. apply rnd_le_fmt; [exact fmt_one|exact H]. Qed.
Lemma rnd_abs_ge_1 (v : R) : 1 <= Rabs v -> 1 <= Rabs (rnd v).
Proof. intros H. rewrite <- rnd_abs. apply rnd_ge_fmt; [exact fmt_one|exact H]. Qed.

Lemma pw_mul (sm : bool) (x R0 A : R) (pr cr pa ca : nat) :
  (if sm then Rabs x <= 1 else 1 <= Rabs x) ->
  pw_inv sm x R0 pr cr -> pw_inv sm x A pa ca ->
  pw_inv sm x (rnd (R0 * A)) (pr + pa) (S (cr + ca)).
Proof.
  intros Hx [MR ER] [MA EA].
  pose proof u64_pos as Hu. pose proof eta64_pos as Het.
  pose proof (g64_nonneg cr) as Gr0. pose proof (g64_nonneg ca) as Ga0.
  rewrite (RPow_abs x pr) in ER. rewrite (RPow_abs x pa) in EA.
  set (X := Rabs x) in *. assert (X0 : 0 <= X) by apply Rabs_pos.
  assert (EP : Rabs (x ^ pr) * Rabs (x ^ pa) = X ^ (pr + pa)).
  { rewrite <- !RPow_abs, pow_add. reflexivity. }
  assert (ET : x ^ (pr + pa) = x ^ pr * x ^ pa) by apply pow_add.
  assert (EG : (1 + g64 cr) * (1 + g64 ca) * (1 + u64) = 1 + g64 (S (cr + ca))).
  { rewrite g64_add, <- g64_S'. reflexivity. }
  assert (PQ0 : 0 <= X ^ (pr + pa)) by (apply pow_le; exact X0).
  destruct sm.
  - (* small regime *)
    assert (P1 : Rabs (x ^ pr) <= 1).
    { rewrite <- RPow_abs. fold X. rewrite <- (pow1 pr). apply pow_incr. lra. }
    assert (MRA : Rabs (R0 * A) <= 1).
    { rewrite Rabs_mult. pose proof (Rabs_pos R0). pose proof (Rabs_pos A). nra. }
    split; [apply rnd_abs_le_1; exact MRA|]. fold X.
    set (Ur := INR cr * (1 + g64 cr) * eta64) in *. set (Ua := INR ca * (1 + g64 ca) * eta64) in *.
    assert (Ur0 : 0 <= Ur).
    { unfold Ur. apply Rmult_le_pos; [apply Rmult_le_pos; [apply pos_INR|lra]|lra]. }
    assert (Ua0 : 0 <= Ua).
    { unfold Ua. apply Rmult_le_pos; [apply Rmult_le_pos; [apply pos_INR|lra]|lra]. }
    pose proof (mul_err_gen R0 A (x ^ pr) (x ^ pa) _ _ Ur Ua Gr0 Ga0 Ur0 Ua0 ER EA) as M.
    rewrite EP in M.
    destruct (rnd_model (R0 * A)) as (e & e' & He & He' & E). rewrite E.
    pose proof (round_err_gen (R0 * A) (x ^ (pr + pa)) e e' He He') as Rd.
    rewrite ET in Rd at 1. rewrite ET, Rabs_mult, EP in Rd. rewrite ET.
    eapply Rle_trans; [exact Rd|].
    set (W := Rabs (R0 * A - x ^ pr * x ^ pa)) in *.
    assert (T1 : (1 + g64 cr) * Rabs (x ^ pr) * Ua <= (1 + g64 cr) * Ua).
    { rewrite <- (Rmult_1_r (1 + g64 cr)) at 2. rewrite Rmult_assoc, (Rmult_comm (Rabs _)), <- Rmult_assoc.
      rewrite (Rmult_assoc (1 + g64 cr) 1), Rmult_1_l.
      rewrite Rmult_assoc. apply Rmult_le_compat_l; [lra|].
      rewrite <- (Rmult_1_r Ua) at 2. apply Rmult_le_compat_l; assumption. }
    assert (T2 : Ur * Rabs A <= Ur).
    { rewrite <- (Rmult_1_r Ur) at 2. apply Rmult_le_compat_l; assumption. }
    assert (W1 : W <= ((1 + g64 cr) * (1 + g64 ca) - 1) * X ^ (pr + pa) + ((1 + g64 cr) * Ua + Ur)) by lra.
    assert (W2 : W * (1 + u64) <=
                 (((1 + g64 cr) * (1 + g64 ca) - 1) * X ^ (pr + pa) + ((1 + g64 cr) * Ua + Ur)) * (1 + u64)).
    { apply Rmult_le_compat_r; lra. }
    (* the absolute part *)
    set (G := g64 (S (cr + ca))) in *.
    assert (A1 : (1 + g64 cr) * Ua * (1 + u64) = INR ca * (1 + G) * eta64).
    { unfold Ua. rewrite <- EG. ring. }
    assert (A2 : Ur * (1 + u64) <= INR cr * (1 + G) * eta64).
    { unfold Ur. rewrite <- EG.
      assert (Q : (1 + g64 cr) * (1 + u64) <= (1 + g64 cr) * (1 + g64 ca) * (1 + u64)).
      { apply Rmult_le_compat_r; [lra|]. rewrite <- (Rmult_1_r (1 + g64 cr)) at 1.
        apply Rmult_le_compat_l; lra. }
      pose proof (pos_INR cr) as Hc.
      assert (Q2 : INR cr * ((1 + g64 cr) * (1 + u64)) <= INR cr * ((1 + g64 cr) * (1 + g64 ca) * (1 + u64))).
      { apply Rmult_le_compat_l; assumption. }
      assert (Q3 : INR cr * ((1 + g64 cr) * (1 + u64)) * eta64
                   <= INR cr * ((1 + g64 cr) * (1 + g64 ca) * (1 + u64)) * eta64).
      { apply Rmult_le_compat_r; lra. }
      lra. }
    assert (A3 : Rabs e' <= (1 + G) * eta64).
    { pose proof (g64_nonneg (S (cr + ca))) as GG. fold G in GG.
      assert (eta64 <= (1 + G) * eta64) by nra. lra. }
    rewrite !S_INR, plus_INR.
    assert (EGG : ((1 + g64 cr) * (1 + g64 ca) - 1) * (1 + u64) + u64 = G) by lra.
    replace (G * X ^ (pr + pa)) with ((((1 + g64 cr) * (1 + g64 ca) - 1) * (1 + u64) + u64) * X ^ (pr + pa))
      by (rewrite EGG; reflexivity).
    lra.
  - (* big regime: purely relative *)
    assert (MRA : 1 <= Rabs (R0 * A)).
    { rewrite Rabs_mult. nra. }
    split; [apply rnd_abs_ge_1; exact MRA|]. fold X.
    rewrite Rplus_0_r in *.
    assert (ER' : Rabs (R0 - x ^ pr) <= g64 cr * Rabs (x ^ pr) + 0) by lra.
    assert (EA' : Rabs (A - x ^ pa) <= g64 ca * Rabs (x ^ pa) + 0) by lra.
    pose proof (mul_err_gen R0 A (x ^ pr) (x ^ pa) _ _ 0 0 Gr0 Ga0 (Rle_refl 0) (Rle_refl 0) ER' EA') as M.
    rewrite EP in M.
    destruct (rnd_rel (R0 * A)) as (e & He & E).
    { apply Rle_trans with 1; [|exact MRA]. change 1 with (bpow radix2 0). apply bpow_le. lia. }
    rewrite E. replace (R0 * A * (1 + e)) with (R0 * A * (1 + e) + 0) by ring.
    assert (H0 : Rabs 0 <= eta64) by (rewrite Rabs_R0; lra).
    pose proof (round_err_gen (R0 * A) (x ^ (pr + pa)) e 0 He H0) as Rd.
    rewrite ET in Rd at 1. rewrite ET, Rabs_mult, EP, Rabs_R0 in Rd. rewrite ET.
    eapply Rle_trans; [exact Rd|].
    set (W := Rabs (R0 * A - x ^ pr * x ^ pa)) in *.
    assert (W2 : W * (1 + u64) <= (((1 + g64 cr) * (1 + g64 ca) - 1) * X ^ (pr + pa)) * (1 + u64)).
    { apply Rmult_le_compat_r; lra. }
    set (G := g64 (S (cr + ca))) in *.
    assert (EGG : ((1 + g64 cr) * (1 + g64 ca) - 1) * (1 + u64) + u64 = G) by lra.
    replace (G * X ^ (pr + pa)) with ((((1 + g64 cr) * (1 + g64 ca) - 1) * (1 + u64) + u64) * X ^ (pr + pa))
      by (rewrite EGG; reflexivity).
    lra.
Qed.

(* ------------------------------------------------------------------ *)
(* 3. The loop in binary64                                              *)
(* ------------------------------------------------------------------ *)
Section Powi.
Variables lt et : list (Z * Z).
Let O := f64_ops lt et.

Lemma powi_loop_fin_r fuel : forall a r b, fin (powi_loop O fuel a r b) = true -> fin r = true.
Proof.
  induction fuel as [|f IH]; intros a r b Hf; [exact Hf|].
  cbn [powi_loop] in Hf.
  assert (Hr' : fin (if Nat.odd b then fmul r a else r) = true).
  { destruct (Nat.eqb (Nat.div2 b) 0); [exact Hf | exact (IH _ _ _ Hf)]. }
  destruct (Nat.odd b); [|exact Hr']. exact (proj1 (fmul_finite_args _ _ Hr')).
Qed.

Lemma powi_loop_fin_a fuel : forall a r b, b <> 0%nat -> (b < fuel)%nat ->
  fin (powi_loop O fuel a r b) = true -> fin a = true.
Proof.
  induction fuel as [|f IH]; intros a r b Hb0 Hbf Hf; [lia|].
  cbn [powi_loop] in Hf.
  pose proof (Nat.div2_odd b) as Hdo.
  destruct (Nat.odd b) eqn:Eo.
  - assert (Hr' : fin (fmul r a) = true).
    { destruct (Nat.eqb (Nat.div2 b) 0); [exact Hf | exact (powi_loop_fin_r _ _ _ _ Hf)]. }
    exact (proj2 (fmul_finite_args _ _ Hr')).
  - cbn [Nat.b2n] in Hdo. destruct (Nat.eqb (Nat.div2 b) 0) eqn:E0.
    + apply Nat.eqb_eq in E0. lia.
    + apply Nat.eqb_neq in E0.
      assert (Haa : fin (fmul a a) = true) by (apply (IH _ r (Nat.div2 b)); [exact E0 | lia | exact Hf]).
      exact (proj1 (fmul_finite_args _ _ Haa)).
Qed.

Lemma powi_loop_err (sm : bool) (x : R) (Hx : if sm then Rabs x <= 1 else 1 <= Rabs x) fuel :
  forall a r b pa pr ca cr,
  (b < fuel)%nat -> (S ca <= pa)%nat -> (cr <= pr)%nat ->
  pw_inv sm x (B2R a) pa ca -> pw_inv sm x (B2R r) pr cr ->
  fin (powi_loop O fuel a r b) = true ->
  pw_inv sm x (B2R (powi_loop O fuel a r b)) (pr + pa * b) (pr + pa * b).
Proof.
  induction fuel as [|f IH]; intros a r b pa pr ca cr Hbf Hca Hcr Ia Ir Hf; [lia|].
  cbn [powi_loop] in Hf |- *.
  pose proof (Nat.div2_odd b) as Hdo.
  remember (Nat.div2 b) as d eqn:Ed. remember (Nat.odd b) as o eqn:Eo. clear Ed Eo.
  set (r' := if o then o_mul O r a else r) in *.
  assert (Fr' : fin r' = true).
  { destruct (Nat.eqb d 0); [exact Hf | exact (powi_loop_fin_r _ _ _ _ Hf)]. }
  set (pr' := (if o then pr + pa else pr)%nat).
  set (cr' := (if o then S (cr + ca) else cr)%nat).
  assert (Ir' : pw_inv sm x (B2R r') pr' cr').
  { unfold r', pr', cr' in *. destruct o; [|exact Ir].
    change (o_mul O r a) with (fmul r a) in *. rewrite (fmul_value _ _ Fr').
    apply pw_mul; assumption. }
  assert (Hcr' : (cr' <= pr')%nat) by (unfold cr', pr'; destruct o; lia).
  assert (Ep : (pr + pa * b = pr' + (pa + pa) * d)%nat).
  { unfold pr'. rewrite Hdo. destruct o; cbn [Nat.b2n]; nia. }
  rewrite Ep.
  destruct (Nat.eqb d 0) eqn:E0.
  - apply Nat.eqb_eq in E0. subst d. rewrite Nat.mul_0_r, Nat.add_0_r.
    apply (pw_inv_mono sm x _ pr' cr' pr' Hcr' Ir').
  - apply Nat.eqb_neq in E0.
    assert (Haa : fin (fmul a a) = true).
    { apply (powi_loop_fin_a f _ r' d); [exact E0 | destruct o; cbn [Nat.b2n] in Hdo; lia | exact Hf]. }
    change (o_mul O a a) with (fmul a a) in *.
    apply (IH (fmul a a) r' d (pa + pa)%nat pr' (S (ca + ca)) cr');
      [destruct o; cbn [Nat.b2n] in Hdo; lia | lia | exact Hcr' | | exact Ir' | exact Hf].
    rewrite (fmul_value _ _ Haa). apply pw_mul; assumption.
Qed.

Lemma B2R_one : B2R (o_one O) = 1.
Proof. exact (proj2 fone_spec). Qed.

Lemma powi_inv (sm : bool) (x : F64) (k : nat) : (if sm then Rabs (B2R x) <= 1 else 1 <= Rabs (B2R x)) ->
  fin (powi O x k) = true -> pw_inv sm (B2R x) (B2R (powi O x k)) k k.
Proof.
  intros Hx Hf. unfold powi in *.
  pose proof (powi_loop_err sm (B2R x) Hx (S k) x (o_one O) k 1 0 0 0
                (Nat.lt_succ_diag_r k) (le_n 1) (le_n 0)) as P.
  rewrite B2R_one in P. specialize (P (pw_inv_base sm _ Hx) (pw_inv_one sm _) Hf).
  replace (0 + 1 * k)%nat with k in P by lia. exact P.
Qed.

(* (1) the forward error of powi, any base, any exponent *)
Theorem powi_error (x : F64) k : fin (powi O x k) = true ->
  Rabs (B2R (powi O x k) - B2R x ^ k) <= g64 k * Rabs (B2R x) ^ k + INR k * (1 + g64 k) * eta64.
Proof.
  intros Hf. destruct (Rle_or_lt (Rabs (B2R x)) 1) as [Hs|Hb].
  - exact (proj2 (powi_inv true x k Hs Hf)).
  - destruct (powi_inv false x k (Rlt_le _ _ Hb) Hf) as [_ E].
    eapply Rle_trans; [exact E|]. apply Rplus_le_compat_l.
    pose proof (g64_nonneg k). pose proof eta64_pos. pose proof (pos_INR k).
    apply Rmult_le_pos; [apply Rmult_le_pos|]; lra.
Qed.

(* no underflow term for a base of magnitude >= 1 *)
Theorem powi_error_big (x : F64) k : 1 <= Rabs (B2R x) -> fin (powi O x k) = true ->
  Rabs (B2R (powi O x k) - B2R x ^ k) <= g64 k * Rabs (B2R x) ^ k.
Proof.
  intros Hb Hf. destruct (powi_inv false x k Hb Hf) as [_ E]. rewrite Rplus_0_r in E. exact E.
Qed.

(* a finite power of order >= 1 has a finite base *)
Lemma powi_fin_arg (x : F64) k : (1 <= k)%nat -> fin (powi O x k) = true -> fin x = true.
Proof. intros Hk Hf. apply (powi_loop_fin_a (S k) x (o_one O) k); [lia|lia|exact Hf]. Qed.

Lemma powi_0 (x : F64) : powi O x 0 = o_one O.
Proof. reflexivity. Qed.
Lemma powi_1 (x : F64) : fin x = true -> B2R (powi O x 1) = B2R x.
Proof.
  intros Fx. unfold powi. cbn [powi_loop Nat.odd Nat.even Nat.div2 Nat.eqb negb].
  change (o_mul O (o_one O) x) with (fmul fone x).
  destruct (fmul_correct fone x (proj1 fone_spec) Fx) as [_ E].
  - rewrite (proj2 fone_spec), Rmult_1_l, (rnd_id _ (fmt_B2R x)). apply B2R_bound. exact Fx.
  - rewrite E, (proj2 fone_spec), Rmult_1_l. apply rnd_id, fmt_B2R.
Qed.
End Powi.

(* a concrete instance: 1.5^5 (exact), 3^40 (rounded), (2^-600)^3 (underflows to 0) *)
Example powi_examples :
  let O := f64_ops [] [] in
  fin (powi O (f64_of_bits 0x3ff8000000000000) 5) = true /\
  fin (powi O (f64_of_Z 3) 40) = true /\
  fin (powi O (f64_of_bits 0x1a70000000000000) 3) = true /\
  powi O (f64_of_bits 0x1a70000000000000) 3 = fzero.
Proof. vm_compute. repeat split; reflexivity. Qed.

Print Assumptions powi_error.
Print Assumptions powi_error_big.
