(* ndarray 0.16.1: how the layout of an array decides the order in which ArrayBase::sum adds its
   elements.  Transcribed from ndarray's source (dimension/dimension_trait.rs: default_strides,
   is_contiguous, _fastest_varying_stride_order; dimension/mod.rs: is_layout_c for a 1-D row;
   numeric/impl_numeric.rs: sum; impl_methods.rs: as_slice_memory_order).  A layout is the shape
   and the strides (in elements, possibly negative) of the view AS NDARRAY REPORTS THEM - the
   correspondence check feeds the strides observed on the real array, so nothing here depends on a
   mirror of ndarray's slicing arithmetic.  Logical positions are row-major ranks 0 .. size-1. *)
From Coq Require Import List Arith ZArith Bool Lia.
Import ListNotations.
From NS Require Import Num.Ops Num.Kernels.

Record layout := { l_shape : list nat; l_strides : list Z }.

Definition size (L : layout) : nat := fold_right Nat.mul 1 (l_shape L).

(* Dimension::default_strides: (a, b, c) -> (b c, c, 1); all zero when some axis is empty *)
Fixpoint c_strides (shape : list nat) : list Z :=
  match shape with
  | [] => []
  | _ :: rest => Z.of_nat (fold_right Nat.mul 1 rest) :: c_strides rest
  end.
Definition default_strides (shape : list nat) : list Z :=
  if forallb (fun d => negb (Nat.eqb d 0)) shape then c_strides shape else map (fun _ => 0%Z) shape.

Fixpoint zlist_eqb (a b : list Z) : bool :=
  match a, b with
  | [], [] => true
  | x :: a', y :: b' => Z.eqb x y && zlist_eqb a' b'
  | _, _ => false
  end.

(* stable insertion sort of axis numbers by |stride| (slice::sort_by_key is stable) *)
Fixpoint ins_axis (key : nat -> Z) (i : nat) (l : list nat) : list nat :=
  match l with
  | [] => [i]
  | j :: t => if (key i <? key j)%Z then i :: l else j :: ins_axis key i t
  end.
Definition stride_order (strides : list Z) : list nat :=
  let key := fun i => Z.abs (nth i strides 0%Z) in
  fold_left (fun acc i => ins_axis key i acc) (seq 0 (length strides)) [].

Fixpoint contig_walk (shape : list nat) (strides : list Z) (order : list nat) (cstride : Z) : bool :=
  match order with
  | [] => true
  | i :: rest =>
    let d := nth i shape 0 in
    if negb (Nat.eqb d 1) && negb (Z.eqb (Z.abs (nth i strides 0%Z)) cstride) then false
    else contig_walk shape strides rest (cstride * Z.of_nat d)%Z
  end.

(* Dimension::is_contiguous *)
Definition is_contiguous (L : layout) : bool :=
  if zlist_eqb (l_strides L) (default_strides (l_shape L)) then true
  else match l_shape L, l_strides L with
       | [d], [s] => Nat.leb d 1 || Z.eqb s (-1)
       | _, _ => contig_walk (l_shape L) (l_strides L) (stride_order (l_strides L)) 1
       end.

(* multi-indexes in logical (row-major) order and their offsets relative to the view's pointer *)
Fixpoint indexes (shape : list nat) : list (list nat) :=
  match shape with
  | [] => [[]]
  | d :: rest => flat_map (fun i => map (cons i) (indexes rest)) (seq 0 d)
  end.
Fixpoint offset_of (idx : list nat) (strides : list Z) : Z :=
  match idx, strides with
  | i :: idx', s :: strides' => (Z.of_nat i * s + offset_of idx' strides')%Z
  | _, _ => 0%Z
  end.
Definition offsets (L : layout) : list Z := map (fun idx => offset_of idx (l_strides L)) (indexes (l_shape L)).

(* logical positions sorted by memory offset: what as_slice_memory_order exposes *)
Fixpoint ins_pos (key : nat -> Z) (p : nat) (l : list nat) : list nat :=
  match l with
  | [] => [p]
  | q :: t => if (key p <? key q)%Z then p :: l else q :: ins_pos key p t
  end.
Definition mem_order (L : layout) : list nat :=
  let offs := offsets L in
  let key := fun p => nth p offs 0%Z in
  fold_left (fun acc p => ins_pos key p acc) (seq 0 (length offs)) [].

(* self.rows(): the lanes along the last axis, in logical order; a 0-D array has one row *)
Definition last_len (shape : list nat) : nat := last shape 1.
Fixpoint chunks (n k : nat) (start : nat) : list (list nat) :=    (* n rows of k consecutive positions *)
  match n with
  | O => []
  | S n' => seq start k :: chunks n' k (start + k)
  end.
Definition rows_of (L : layout) : list (list nat) :=
  let k := last_len (l_shape L) in
  let n := fold_right Nat.mul 1 (removelast (l_shape L)) in
  chunks n k 0.
(* row.as_slice(): a 1-D row is a slice when its stride is 1 or it has at most one element *)
Definition row_is_slice (L : layout) : bool :=
  Nat.leb (last_len (l_shape L)) 1 || Z.eqb (last (l_strides L) 1%Z) 1.

(* ArrayBase::sum's order *)
Definition sum_plan_of (L : layout) : plan :=
  if is_contiguous L then PMem (mem_order L)
  else PRows (map (fun r => (row_is_slice L, r)) (rows_of L)).

(* ndarray never hands out a view whose distinct logical positions share a memory cell *)
Definition wf_layout (L : layout) : Prop :=
  length (l_strides L) = length (l_shape L) /\ NoDup (offsets L).
