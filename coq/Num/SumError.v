From Flocq Require Import Core Plus_error Relative.
Require Import Reals Lra Lia Psatz List.
Import ListNotations.
Open Scope R_scope.

Section S.
Variables (emin prec : Z).
Context (Hprec : Prec_gt_0 prec).
Notation fexp := (FLT_exp emin prec).
Notation fmt := (generic_format radix2 fexp).
Definition rnd (x : R) := round radix2 fexp ZnearestE x.
Definition u := u_ro radix2 prec.

Lemma u_pos : 0 <= u. Proof. apply u_ro_pos. Qed.

Inductive tree := Leaf (x : R) | Node (l r : tree).
Fixpoint eval t := match t with Leaf x => x | Node l r => rnd (eval l + eval r) end.
Fixpoint exact t := match t with Leaf x => x | Node l r => exact l + exact r end.
Fixpoint asum t := match t with Leaf x => Rabs x | Node l r => asum l + asum r end.
Fixpoint height t := match t with Leaf _ => O | Node l r => S (Nat.max (height l) (height r)) end.
Fixpoint leaves_fmt t := match t with Leaf x => fmt x | Node l r => leaves_fmt l /\ leaves_fmt r end.

Definition g (k : nat) := (1 + u) ^ k - 1.

Lemma g_mono a b : (a <= b)%nat -> g a <= g b.
Proof.
  intros H. unfold g. apply Rplus_le_compat_r. apply Rle_pow; [pose proof u_pos; lra | exact H].
Qed.
Lemma g_nonneg k : 0 <= g k.
Proof. assert (E : g 0 = 0) by (unfold g; simpl; ring). rewrite <- E. apply g_mono. lia. Qed.

Lemma asum_nonneg t : 0 <= asum t.
Proof. induction t; simpl; [apply Rabs_pos | lra]. Qed.

Lemma eval_fmt t : leaves_fmt t -> fmt (eval t).
Proof. destruct t; simpl; intros H; [exact H|]. apply generic_format_round; auto with typeclass_instances. Qed.

Lemma rnd_plus x y : fmt x -> fmt y -> exists e, Rabs e <= u /\ rnd (x + y) = (x + y) * (1 + e).
Proof.
  intros Fx Fy. destruct (FLT_plus_error_N_ex radix2 emin prec (fun z => negb (Z.even z)) x y Fx Fy) as (e & He & E).
  exists e. split; [|exact E].
  eapply Rle_trans; [exact He|]. apply u_rod1pu_ro_le_u_ro.
Qed.

Theorem sum_tree_error t : leaves_fmt t ->
  Rabs (eval t - exact t) <= g (height t) * asum t.
Proof.
  induction t as [x | l IHl r IHr]; simpl; intros H.
  - replace (x - x) with 0 by ring. rewrite Rabs_R0. unfold g. simpl. lra.
  - destruct H as [Hl Hr]. specialize (IHl Hl). specialize (IHr Hr).
    destruct (rnd_plus (eval l) (eval r) (eval_fmt l Hl) (eval_fmt r Hr)) as (e & He & E).
    rewrite E.
    set (h := Nat.max (height l) (height r)).
    assert (Gl : Rabs (eval l - exact l) <= g h * asum l).
    { eapply Rle_trans; [exact IHl|]. apply Rmult_le_compat_r; [apply asum_nonneg|]. apply g_mono. unfold h; lia. }
    assert (Gr : Rabs (eval r - exact r) <= g h * asum r).
    { eapply Rle_trans; [exact IHr|]. apply Rmult_le_compat_r; [apply asum_nonneg|]. apply g_mono. unfold h; lia. }
    pose proof (asum_nonneg l) as Al. pose proof (asum_nonneg r) as Ar.
    pose proof (g_nonneg h) as Gh. pose proof u_pos as Hu.
    (* |exact| <= asum *)
    assert (El : Rabs (exact l) <= asum l).
    { clear. induction l; simpl; [lra|]. eapply Rle_trans; [apply Rabs_triang|]. lra. }
    assert (Er : Rabs (exact r) <= asum r).
    { clear. induction r; simpl; [lra|]. eapply Rle_trans; [apply Rabs_triang|]. lra. }
    replace ((eval l + eval r) * (1 + e) - (exact l + exact r))
      with (((eval l - exact l) + (eval r - exact r)) * (1 + e) + (exact l + exact r) * e) by ring.
    assert (G1 : g (S h) = g h * (1 + u) + u) by (unfold g; simpl; ring).
    rewrite G1.
    eapply Rle_trans; [apply Rabs_triang|].
    rewrite !Rabs_mult.
    assert (B1 : Rabs (eval l - exact l + (eval r - exact r)) <= g h * (asum l + asum r)).
    { eapply Rle_trans; [apply Rabs_triang|]. lra. }
    assert (B2 : Rabs (1 + e) <= 1 + u).
    { eapply Rle_trans; [apply Rabs_triang|]. rewrite Rabs_R1. lra. }
    assert (B3 : Rabs (exact l + exact r) <= asum l + asum r).
    { eapply Rle_trans; [apply Rabs_triang|]. lra. }
    assert (P1 : Rabs (eval l - exact l + (eval r - exact r)) * Rabs (1 + e) <= (g h * (asum l + asum r)) * (1 + u)).
    { apply Rmult_le_compat; try apply Rabs_pos; auto. }
    assert (P2 : Rabs (exact l + exact r) * Rabs e <= (asum l + asum r) * u).
    { apply Rmult_le_compat; try apply Rabs_pos; auto. }
    nra.
Qed.
End S.
