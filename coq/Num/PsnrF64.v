(* peak_signal_to_noise_ratio = 10 * log10(maxv * maxv / mean_sq_err) in binary64 (Num/DerivedF64.v:
   psnr), with libm's log10 as an oracle function: under an accuracy premise on the oracle
   (relative error elog, in the style of the ln-table premise of Props/C10_f64.v), an ABSOLUTE
   error bound in dB in terms of the relative error dm of the computed mean squared error:
       | psnr_fl - PSNR |  <=  c (|PSNR| + D) + D + eta64,
       D = (10 / ln 10) (4 u64 + 2 dm),   c = (1 + elog)(1 + u64) - 1
   (d/dx 10 log10 x = 10 / (x ln 10): a relative error dm of the argument moves the value by
   about 4.34 dm dB). *)
From Flocq Require Import Core BinarySingleNaN Plus_error Relative.
Require Import Reals Lra Lia ZArith Psatz Bool List Permutation.
From NS Require Import Num.F64 Num.Ops Num.F64Inst Num.Kernels Num.SumBridge Num.SumF64
  Quantile.IndexProofs Quantile.InterpF64 Num.DeviationF64 Num.MeansF64 Num.DerivedF64 Num.OracleF64.
Import ListNotations.
Open Scope R_scope.

Local Instance prec64_gt_0P : Prec_gt_0 53 := Hprec64.
Local Instance vexp64P : Valid_exp (SpecFloat.fexp 53 1024) := fexp_correct 53 1024 Hprec64.

(* accuracy of the log10 oracle on the finite positive arguments where it returns a finite value *)
Definition log10_accurate (flog10 : F64 -> F64) (elog : R) : Prop :=
  forall x : F64, fin x = true -> 0 < B2R x -> fin (flog10 x) = true ->
    Rabs (B2R (flog10 x) - Rlog10 (B2R x)) <= elog * Rabs (Rlog10 (B2R x)).

(* a rounded value in the upper part of the normal range carries a purely relative error *)
Lemma rnd_normal_rel (x : R) : bpow radix2 (-1021) <= rnd x ->
  0 < x /\ exists e, Rabs e <= u64 /\ rnd x = x * (1 + e).
Proof.
  intros H.
  assert (L : bpow radix2 (-1022) <= x).
  { destruct (Rle_or_lt (bpow radix2 (-1022)) x) as [L|L]; [exact L|].
    pose proof (rnd_le_fmt x (bpow radix2 (-1022)) (fmt_bpow (-1022) ltac:(lia)) (Rlt_le _ _ L)) as Q.
    assert (Q2 : bpow radix2 (-1022) < bpow radix2 (-1021)) by (apply bpow_lt; lia). lra. }
  pose proof (bpow_gt_0 radix2 (-1022)) as Hp1. split; [lra|].
  apply rnd_rel. rewrite Rabs_pos_eq; lra.
Qed.

Lemma ln_quot_pert (M2 MSE e1 e2 dl dm : R) : 0 < M2 -> 0 < MSE ->
  Rabs e1 <= u64 -> Rabs e2 <= u64 -> Rabs dl <= dm -> dm <= / 2 ->
  Rabs (ln (M2 * (1 + e1) / (MSE * (1 + dl)) * (1 + e2)) - ln (M2 / MSE)) <= 4 * u64 + 2 * dm.
Proof.
  intros HM HS He1 He2 Hdl Hdm.
  pose proof u64_pos as Hu. pose proof u64_small as Hu4.
  pose proof (ln1p_bound e1 He1) as B1. pose proof (ln1p_bound e2 He2) as B2.
  pose proof (ln1p_gen dl dm Hdl Hdm) as B3.
  apply Rabs_le_inv in He1. apply Rabs_le_inv in He2. apply Rabs_le_inv in Hdl.
  assert (P1 : 0 < 1 + e1) by lra. assert (P2 : 0 < 1 + e2) by lra. assert (P3 : 0 < 1 + dl) by lra.
  assert (E : ln (M2 * (1 + e1) / (MSE * (1 + dl)) * (1 + e2)) - ln (M2 / MSE)
              = ln (1 + e1) + ln (1 + e2) - ln (1 + dl)).
  { unfold Rdiv.
    assert (Q1 : 0 < MSE * (1 + dl)) by (apply Rmult_lt_0_compat; lra).
    assert (Q2 : 0 < / (MSE * (1 + dl))) by (apply Rinv_0_lt_compat; exact Q1).
    assert (Q3 : 0 < M2 * (1 + e1)) by (apply Rmult_lt_0_compat; lra).
    assert (Q4 : 0 < / MSE) by (apply Rinv_0_lt_compat; exact HS).
    rewrite (ln_mult (M2 * (1 + e1) * / (MSE * (1 + dl))) (1 + e2)) by (try apply Rmult_lt_0_compat; assumption).
    rewrite (ln_mult (M2 * (1 + e1))), (ln_mult M2 (1 + e1)), (ln_Rinv (MSE * (1 + dl))), (ln_mult MSE (1 + dl)),
      (ln_mult M2 (/ MSE)), (ln_Rinv MSE) by assumption.
    ring. }
  rewrite E. apply Rabs_le_inv in B1. apply Rabs_le_inv in B2. apply Rabs_le_inv in B3.
  apply Rabs_le. lra.
Qed.

(* a positive quotient has a finite denominator (x / inf = 0, x / NaN = NaN) *)
Lemma fdiv_pos_fin_den (x y : F64) : 0 < B2R (fdiv x y) -> fin y = true.
Proof.
  destruct y as [sy|sy| |sy my ey Hy]; try reflexivity;
    destruct x as [sx|sx| |sx mx ex Hx]; cbn; intros H; lra.
Qed.

Section Psnr.
Variables lt et : list (Z * Z).
Local Notation O := (f64_ops lt et).
Variable flog10 : F64 -> F64.
Variable elog : R.
Hypothesis elog_nonneg : 0 <= elog.
Hypothesis log10_acc : log10_accurate flog10 elog.

(* the argument of log10 *)
Definition psnr_quot (a b : list F64) (trav : list nat) (maxv : F64) : F64 :=
  fdiv (fmul maxv maxv) (mean_sq_err O a b trav).

Lemma psnr_unfold a b trav maxv :
  psnr O flog10 a b trav maxv = fmul (f64_of_Z 10) (flog10 (psnr_quot a b trav maxv)).
Proof. reflexivity. Qed.

(* generic in the relative accuracy dm of the computed mean squared error *)
Theorem psnr_error_gen a b trav maxv (MSE dm : R) :
  fin (psnr O flog10 a b trav maxv) = true ->
  0 < MSE -> 0 <= dm <= / 2 ->
  Rabs (B2R (mean_sq_err O a b trav) - MSE) <= dm * MSE ->
  bpow radix2 (-1021) <= B2R (fmul maxv maxv) ->
  bpow radix2 (-1021) <= B2R (psnr_quot a b trav maxv) ->
  let P := 10 * Rlog10 (B2R maxv * B2R maxv / MSE) in
  let D := 10 / ln 10 * (4 * u64 + 2 * dm) in
  Rabs (B2R (psnr O flog10 a b trav maxv) - P)
    <= ((1 + elog) * (1 + u64) - 1) * (Rabs P + D) + D + eta64.
Proof.
  intros Hf HS Hdm HB Hm2 Hq P D.
  pose proof u64_pos as Hu. pose proof ln10_gt_2 as H10.
  rewrite psnr_unfold in Hf |- *.
  destruct (fmul_finite_args _ _ Hf) as [F10 FL].
  set (q := psnr_quot a b trav maxv) in *.
  pose proof (bpow_gt_0 radix2 (-1021)) as Hb.
  assert (Pq : 0 < B2R q) by lra.
  pose proof (B2R_pos_fin q Pq) as Fq.
  (* the computed mean squared error is positive *)
  set (mse := B2R (mean_sq_err O a b trav)) in *.
  set (dl := (mse - MSE) / MSE).
  assert (Emse : mse = MSE * (1 + dl)) by (unfold dl; field; lra).
  assert (Hdl : Rabs dl <= dm).
  { unfold dl, Rdiv. rewrite Rabs_mult, Rabs_inv, (Rabs_pos_eq MSE) by lra.
    apply Rmult_le_reg_r with MSE; [exact HS|]. rewrite Rmult_assoc, Rinv_l by lra. lra. }
  assert (Pmse : 0 < mse).
  { rewrite Emse. apply Rabs_le_inv in Hdl. apply Rmult_lt_0_compat; lra. }
  (* the two roundings inside the logarithm *)
  unfold q, psnr_quot in Fq.
  assert (Nmse : mse <> 0) by lra.
  destruct (fdiv_value _ _ Nmse Fq) as [Eq Fm2].
  fold (psnr_quot a b trav maxv) in Eq. fold q in Eq. fold mse in Eq.
  pose proof (fmul_value _ _ Fm2) as Em2.
  rewrite Em2 in Hm2. destruct (rnd_normal_rel _ Hm2) as (PM & e1 & He1 & E1).
  rewrite Eq in Hq. destruct (rnd_normal_rel _ Hq) as (_ & e2 & He2 & E2).
  rewrite E2, Em2, E1, Emse in Eq.
  pose proof (ln_quot_pert _ MSE e1 e2 dl dm PM HS He1 He2 Hdl (proj2 Hdm)) as BL.
  rewrite <- Eq in BL.
  (* the oracle *)
  pose proof (log10_acc q (B2R_pos_fin q Pq) Pq FL) as BO.
  set (L' := B2R (flog10 q)) in *. set (Lq := Rlog10 (B2R q)) in *.
  (* the final multiplication *)
  rewrite (fmul_value _ _ Hf).
  destruct (f64_of_Z_exact 10 ltac:(lia)) as [_ E10]. rewrite E10. fold L'.
  destruct (rnd_model (10 * L')) as (e3 & e3' & He3 & He3' & E3). rewrite E3.
  assert (BY : Rabs (10 * L' - 10 * Lq) <= elog * Rabs (10 * Lq)).
  { rewrite <- Rmult_minus_distr_l, !Rabs_mult, (Rabs_pos_eq 10) by lra.
    assert (Q10 : 10 * Rabs (L' - Lq) <= 10 * (elog * Rabs Lq)) by (apply Rmult_le_compat_l; lra). lra. }
  pose proof (mul_ln_error (10 * Lq) (10 * L') e3 e3' elog elog_nonneg BY He3 He3') as BM.
  set (c := (1 + elog) * (1 + u64) - 1) in *.
  assert (Hc : 0 <= c).
  { unfold c. assert (Q0 : 0 <= elog * u64) by (apply Rmult_le_pos; lra). lra. }
  assert (BD : Rabs (10 * Lq - P) <= D).
  { unfold P, D, Lq, Rlog10, Rdiv. 
    replace (10 * (ln (B2R q) * / ln 10) - 10 * (ln (B2R maxv * B2R maxv * / MSE) * / ln 10))
      with (10 * / ln 10 * (ln (B2R q) - ln (B2R maxv * B2R maxv * / MSE))) by ring.
    assert (Q : 0 < 10 * / ln 10) by (apply Rmult_lt_0_compat; [lra|apply Rinv_0_lt_compat; lra]).
    rewrite Rabs_mult, (Rabs_pos_eq (10 * / ln 10)) by lra.
    apply Rmult_le_compat_l; [lra|exact BL]. }
  assert (BA : Rabs (10 * Lq) <= Rabs P + D).
  { replace (10 * Lq) with (P + (10 * Lq - P)) by ring. eapply Rle_trans; [apply Rabs_triang|]. lra. }
  assert (Q2 : c * Rabs (10 * Lq) <= c * (Rabs P + D)) by (apply Rmult_le_compat_l; assumption).
  replace (10 * L' * (1 + e3) + e3' - P) with ((10 * L' * (1 + e3) + e3' - 10 * Lq) + (10 * Lq - P)) by ring.
  eapply Rle_trans; [apply Rabs_triang|]. lra.
Qed.

(* with the proved accuracy of mean_sq_err: dm = g64(n+3) + (2 + g64(n+1)) eta64 / MSE *)
Theorem psnr_error a b trav maxv n : n = length a -> is_traversal trav n ->
  (1 <= n)%nat -> (Z.of_nat n <= 2 ^ 53)%Z ->
  fin (psnr O flog10 a b trav maxv) = true ->
  let MSE := SSE a b / INR n in
  let dm := g64 (n + 3) + (2 + g64 (n + 1)) * eta64 / MSE in
  0 < SSE a b -> dm <= / 2 ->
  bpow radix2 (-1021) <= B2R (fmul maxv maxv) ->
  bpow radix2 (-1021) <= B2R (psnr_quot a b trav maxv) ->
  let P := 10 * Rlog10 (B2R maxv * B2R maxv / MSE) in
  let D := 10 / ln 10 * (4 * u64 + 2 * dm) in
  Rabs (B2R (psnr O flog10 a b trav maxv) - P)
    <= ((1 + elog) * (1 + u64) - 1) * (Rabs P + D) + D + eta64.
Proof.
  intros En HT H1 H2 Hf MSE dm HS Hdm Hm2 Hq.
  assert (PN : 0 < INR n) by (apply lt_0_INR; lia).
  assert (PM : 0 < MSE) by (unfold MSE; apply Rdiv_lt_0_compat; assumption).
  pose proof (bpow_gt_0 radix2 (-1021)) as Hb.
  (* the quotient is positive, hence finite, hence mean_sq_err is finite *)
  assert (Fq : fin (psnr_quot a b trav maxv) = true) by (apply B2R_pos_fin; lra).
  assert (Fm : fin (mean_sq_err O a b trav) = true).
  { apply (fdiv_pos_fin_den (fmul maxv maxv)). fold (psnr_quot a b trav maxv). lra. }
  pose proof (mean_sq_err_error lt et a b trav n En HT H1 H2 Fm) as B. fold MSE in B.
  assert (G0 : 0 <= g64 (n + 3)) by apply g64_nonneg.
  assert (G1 : 0 <= g64 (n + 1)) by apply g64_nonneg.
  pose proof eta64_pos as Het.
  assert (E0 : 0 <= (2 + g64 (n + 1)) * eta64 / MSE).
  { unfold Rdiv. apply Rmult_le_pos; [apply Rmult_le_pos; lra|apply Rlt_le, Rinv_0_lt_compat; exact PM]. }
  apply (psnr_error_gen a b trav maxv MSE dm Hf PM); try assumption.
  - split; [unfold dm; lra|exact Hdm].
  - eapply Rle_trans; [exact B|]. apply Req_le. unfold dm. field. lra.
Qed.
End Psnr.

Print Assumptions psnr_error.
