(* The numeric kernels of ndarray-stats (summary_statistics/means.rs, correlation.rs,
   deviation.rs, entropy.rs) and of the ndarray routines they call (sum), over an abstract
   carrier.  Arrays are lists in logical order; where ndarray's traversal order depends on
   the memory layout it is an explicit parameter (a summation plan / a traversal). *)
From Coq Require Import List Arith Bool.
Import ListNotations.
From NS Require Import Num.Ops.

Section K.
Context {T : Type}.
Variable O : ops T.
Declare Scope ops_scope.
Notation "x + y" := (o_add O x y) : ops_scope.
Notation "x - y" := (o_sub O x y) : ops_scope.
Notation "x * y" := (o_mul O x y) : ops_scope.
Notation "x / y" := (o_div O x y) : ops_scope.
Local Open Scope ops_scope.
Notation zero := (o_zero O).
Notation one := (o_one O).

(* ---- ndarray::numeric_util::unrolled_fold(xs, zero, add) ---- *)
Fixpoint unrolled_loop (fuel : nat) (xs : list T) (p : list T) : list T * list T :=
  (* p = [p0..p7]; consumes chunks of 8 *)
  match fuel with
  | 0 => (p, xs)
  | S f =>
    match xs, p with
    | x0 :: x1 :: x2 :: x3 :: x4 :: x5 :: x6 :: x7 :: rest, [p0; p1; p2; p3; p4; p5; p6; p7] =>
      unrolled_loop f rest [p0 + x0; p1 + x1; p2 + x2; p3 + x3; p4 + x4; p5 + x5; p6 + x6; p7 + x7]
    | _, _ => (p, xs)
    end
  end.

Definition unrolled_sum (xs : list T) : T :=
  let '(p, rest) := unrolled_loop (length xs) xs [zero; zero; zero; zero; zero; zero; zero; zero] in
  match p with
  | [p0; p1; p2; p3; p4; p5; p6; p7] =>
    let acc := zero + (p0 + p4) in
    let acc := acc + (p1 + p5) in
    let acc := acc + (p2 + p6) in
    let acc := acc + (p3 + p7) in
    fold_left (fun a x => a + x) rest acc
  | _ => zero
  end.

(* ---- ArrayBase::sum: the order depends on the layout ---- *)
Inductive plan :=
| PMem (order : list nat)                     (* contiguous: unrolled fold over memory order *)
| PRows (rows : list (bool * list nat)).      (* per row: contiguous (unrolled) or strided (sequential) *)

Definition pick_all (data : list T) (ps : list nat) : list T := map (fun p => nth p data zero) ps.

Definition nd_sum (pl : plan) (data : list T) : T :=
  match pl with
  | PMem order => unrolled_sum (pick_all data order)
  | PRows rows =>
    fold_left (fun s (r : bool * list nat) =>
                 let xs := pick_all data (snd r) in
                 s + (if fst r then unrolled_sum xs else fold_left (fun a x => a + x) xs zero))
              rows zero
  end.

(* the plan of the array produced by map / mapv on an array with plan pl (same strides when the
   source is contiguous, standard layout otherwise) *)
Definition plan_of_map (pl : plan) (n : nat) : plan :=
  match pl with
  | PMem order => PMem order
  | PRows _ => PMem (seq 0 n)
  end.

(* ---- means ---- *)
Definition mean (pl : plan) (data : list T) : T := nd_sum pl data / o_of_nat O (length data).

Definition weighted_sum (data ws : list T) : T :=
  fold_left (fun acc dw => acc + fst dw * snd dw) (combine data ws) zero.

Definition weighted_mean (plw : plan) (data ws : list T) : T := weighted_sum data ws / nd_sum plw ws.

Definition harmonic_mean (pl : plan) (data : list T) : T :=
  (* self.map(|x| x.recip()).mean().map(|x| x.recip()) *)
  one / mean (plan_of_map pl (length data)) (map (fun x => one / x) data).

Definition geometric_mean (pl : plan) (data : list T) : T :=
  o_exp O (mean (plan_of_map pl (length data)) (map (o_ln O) data)).

(* ---- West's incremental weighted variance (inner_weighted_var, with the zero-weight skip) ---- *)
Definition west_step (st : T * T * T) (xw : T * T) : T * T * T :=
  let '(wsum, m, s) := st in
  let '(x, w) := xw in
  if o_is_zero O w then st else
  let wsum' := wsum + w in
  let xmm := x - m in
  let inc := (w / wsum') * xmm in
  let m' := m + inc in
  let s' := s + wsum * inc * xmm in
  (wsum', m', s').

Definition west (data ws : list T) (ddof : T) : T :=
  let '(wsum, m, s) := fold_left west_step (combine data ws) (zero, zero, zero) in
  s / (wsum - ddof).

(* the pre-repair loop (defect D5): no skip of zero weights *)
Definition west_step_v0 (st : T * T * T) (xw : T * T) : T * T * T :=
  let '(wsum, m, s) := st in
  let '(x, w) := xw in
  let wsum' := wsum + w in
  let xmm := x - m in
  let inc := (w / wsum') * xmm in
  let m' := m + inc in
  let s' := s + wsum * inc * xmm in
  (wsum', m', s').
Definition west_v0 (data ws : list T) (ddof : T) : T :=
  let '(wsum, m, s) := fold_left west_step_v0 (combine data ws) (zero, zero, zero) in
  s / (wsum - ddof).

(* the pre-repair update of the sum of squares (defect D6): s += w (x - m)(x - m'), whose sign is
   not controlled in floating point when the weight absorbs the accumulated weight *)
Definition west_step_v1 (st : T * T * T) (xw : T * T) : T * T * T :=
  let '(wsum, m, s) := st in
  let '(x, w) := xw in
  if o_is_zero O w then st else
  let wsum' := wsum + w in
  let xmm := x - m in
  let m' := m + (w / wsum') * xmm in
  let s' := s + w * xmm * (x - m') in
  (wsum', m', s').
Definition west_v1 (data ws : list T) (ddof : T) : T :=
  let '(wsum, m, s) := fold_left west_step_v1 (combine data ws) (zero, zero, zero) in
  s / (wsum - ddof).

(* ---- central moments ---- *)
(* compiler-rt __powidf2 / llvm.powi for a non-negative exponent: square and multiply *)
Fixpoint powi_loop (fuel : nat) (a r : T) (b : nat) : T :=
  match fuel with
  | 0 => r
  | S f =>
    let r' := if Nat.odd b then r * a else r in
    let b' := Nat.div2 b in
    if Nat.eqb b' 0 then r' else powi_loop f (a * a) r' b'
  end.
Definition powi (a : T) (b : nat) : T := powi_loop (S b) a one b.

(* moments(a, order): [1; sum/n; sum(x^k)/n for k in 2..=order] *)
Definition moments (pl : plan) (a : list T) (order : nat) : list T :=
  let n := o_of_nat O (length a) in
  let plm := plan_of_map pl (length a) in
  [one] ++ (if Nat.leb 1 order then [nd_sum pl a / n] else []) ++
  map (fun k => nd_sum plm (map (fun x => powi x k) a) / n) (seq 2 (Nat.sub order 1)).

(* IterBinomial::new(n): C(n,0), C(n,1), ..., C(n,n) by a_k = a_{k-1} * (n-k+1) / k *)
Fixpoint iter_binomial_from (fuel : nat) (n k a : nat) : list nat :=
  match fuel with
  | 0 => []
  | S f =>
    if Nat.ltb n k then []
    else
      let a' := if Nat.eqb k 0 then 1%nat else Nat.div (Nat.mul a (Nat.add (Nat.sub n k) 1)) k in
      a' :: iter_binomial_from f n (S k) a'
  end.
Definition iter_binomial (n : nat) : list nat := iter_binomial_from (S (S n)) n 0%nat 1%nat.

(* central_moment_coefficients(moments): IterBinomial::new(moments.len() - 1).zip(moments.rev()):
   the binomial coefficients of order p for the p + 1 moments of orders 0..=p (defect D7 repaired) *)
Definition central_moment_coefficients (ms : list T) : list T :=
  map (fun bm => o_of_nat O (fst bm) * snd bm) (combine (iter_binomial (Nat.pred (length ms))) (rev ms)).

(* the pre-repair coefficients (defect D7): IterBinomial::new(moments.len()), i.e. order p + 1 *)
Definition central_moment_coefficients_v0 (ms : list T) : list T :=
  map (fun bm => o_of_nat O (fst bm) * snd bm) (combine (iter_binomial (length ms)) (rev ms)).

(* horner_method: for c in coefficients.rev() { result = c + x * result } *)
Definition horner (coeffs : list T) (x : T) : T :=
  fold_left (fun r c => c + x * r) (rev coeffs) zero.

Definition central_moment (pl : plan) (data : list T) (p : nat) : T :=
  match p with
  | 0 => one
  | 1 => zero
  | _ =>
    let m := mean pl data in
    let shifted := map (fun x => x - m) data in
    let sm := moments (plan_of_map pl (length data)) shifted p in
    let corr := o_neg O (nth 1 sm zero) in
    horner (central_moment_coefficients sm) corr
  end.

Definition central_moment_v0 (pl : plan) (data : list T) (p : nat) : T :=
  match p with
  | 0 => one
  | 1 => zero
  | _ =>
    let m := mean pl data in
    let shifted := map (fun x => x - m) data in
    let sm := moments (plan_of_map pl (length data)) shifted p in
    let corr := o_neg O (nth 1 sm zero) in
    horner (central_moment_coefficients_v0 sm) corr
  end.

Definition central_moments (pl : plan) (data : list T) (p : nat) : list T :=
  match p with
  | 0 => [one]
  | 1 => [one; zero]
  | _ =>
    let m := mean pl data in
    let shifted := map (fun x => x - m) data in
    let sm := moments (plan_of_map pl (length data)) shifted p in
    let corr := o_neg O (nth 1 sm zero) in
    [one; zero] ++ map (fun k => horner (central_moment_coefficients (firstn (S k) sm)) corr) (seq 2 (Nat.sub p 1))
  end.

(* kurtosis = m4 / m2.powi(2); skewness = m3 / m2.sqrt().powi(3) *)
Definition kurtosis (pl : plan) (data : list T) : T :=
  let cm := central_moments pl data 4 in
  nth 4 cm zero / powi (nth 2 cm zero) 2.
Definition skewness (pl : plan) (data : list T) : T :=
  let cm := central_moments pl data 3 in
  nth 3 cm zero / powi (o_sqrt O (nth 2 cm zero)) 3.

(* ---- deviation measures: Zip::from(self).and(other), traversal order [trav] (positions) ---- *)
Definition zip_trav (a b : list T) (trav : list nat) : list (T * T) :=
  map (fun p => (nth p a zero, nth p b zero)) trav.

Definition sq_l2_dist (a b : list T) (trav : list nat) : T :=
  fold_left (fun r ab => let d := fst ab - snd ab in r + d * d) (zip_trav a b trav) zero.
Definition l1_dist (a b : list T) (trav : list nat) : T :=
  fold_left (fun r ab => r + o_abs O (fst ab - snd ab)) (zip_trav a b trav) zero.
Definition linf_dist (a b : list T) (trav : list nat) : T :=
  fold_left (fun mx ab => let d := o_abs O (fst ab - snd ab) in if o_ltb O mx d then d else mx)
            (zip_trav a b trav) zero.

(* ---- entropy ---- *)
Definition entropy (pl : plan) (data : list T) : T :=
  o_neg O (nd_sum (plan_of_map pl (length data))
             (map (fun x => if o_is_zero O x then zero else x * o_ln O x) data)).
(* temp = zeros(self.raw_dim()) (standard layout), filled through Zip, then temp.sum() *)
Definition kl_divergence (p q : list T) : T :=
  o_neg O (nd_sum (PMem (seq 0 (length p)))
             (map (fun pq => if o_is_zero O (fst pq) then zero else fst pq * o_ln O (snd pq / fst pq)) (combine p q))).
Definition cross_entropy (p q : list T) : T :=
  o_neg O (nd_sum (PMem (seq 0 (length p)))
             (map (fun pq => if o_is_zero O (fst pq) then zero else fst pq * o_ln O (snd pq)) (combine p q))).
End K.
