(* The kernels over binary32. *)
From Coq Require Import ZArith List Bool.
Import ListNotations.
From NS Require Import Num.Ops Num.F32 Num.F64Inst.

Definition sfnan : F32 := f32_of_bits snan_bits.
Definition stab_fn (tab : list (Z * Z)) (x : F32) : F32 :=
  match tab_lookup tab (bits_of_f32 x) with
  | Some b => f32_of_bits b
  | None => sfnan
  end.

Definition f32_ops (ln_tab exp_tab : list (Z * Z)) : ops F32 := {|
  o_zero := sfzero; o_one := sfone;
  o_add := sfadd; o_sub := sfsub; o_mul := sfmul; o_div := sfdiv;
  o_neg := sfneg; o_abs := sfabs; o_sqrt := sfsqrt;
  o_of_nat := fun n => f32_of_Z (Z.of_nat n);
  o_is_zero := fun x => sfeq x sfzero;
  o_ltb := sflt;
  o_ln := stab_fn ln_tab; o_exp := stab_fn exp_tab |}.
