(* Closed form of the bound of Num/CentralMomentRepF64.v (REPAIRED central_moment, binomials of order p):

     |fl(central_moment p) - mu_p|  <=  D1 * A_p  +  D2 * mdelta * A_(p-1)  +  D3 * eta64 * (1 + A_p)

   where now BOTH D1 and D2 are of first order in the unit roundoff (cmD1_first_order, cmD2_first_order):
   the error mdelta of the computed mean enters only multiplied by u64 (through D2, and through
   A_k = (1/n) sum (|x_i - xbar| + mdelta)^k multiplied by D1 = O(u64)).  Compare cmC2 = p + ... of the
   pre-repair routine (Num/MomentsBoundF64.v), which multiplies mdelta * A_(p-1) by a constant >= p. *)
From Flocq Require Import Core BinarySingleNaN Plus_error Relative.
Require Import Reals Lra Lia ZArith Psatz Bool List Arith Permutation.
From NS Require Import Num.F64 Num.Ops Num.F64Inst Num.Kernels Num.SumBridge Num.SumF64
  Quantile.IndexProofs Quantile.InterpF64 Num.DeviationF64 Num.MeansF64 Num.CovF64 Num.PowiF64
  Num.MomentsErrF64 Num.HornerF64 Num.CentralMomentF64 Num.MomentsBoundF64 Num.CentralMomentRepF64.
Import ListNotations.
Open Scope R_scope.

(* ------------------------------------------------------------------ *)
(* 1. S_k and T_k in terms of A_k                                       *)
(* ------------------------------------------------------------------ *)
Lemma pow_sum_le (a b : R) k : 0 <= a -> 0 <= b -> (a + b) ^ k <= 2 ^ k * (a ^ k + b ^ k).
Proof.
  intros Ha Hb. assert (Pa : 0 <= a ^ k) by (apply pow_le; exact Ha). assert (Pb : 0 <= b ^ k) by (apply pow_le; exact Hb).
  assert (P2 : 0 <= 2 ^ k) by (apply pow_le; lra).
  destruct (Rle_or_lt a b) as [H|H].
  - assert (Q : (a + b) ^ k <= (2 * b) ^ k) by (apply pow_incr; lra). rewrite Rpow_mult_distr in Q. nra.
  - assert (Q : (a + b) ^ k <= (2 * a) ^ k) by (apply pow_incr; lra). rewrite Rpow_mult_distr in Q. nra.
Qed.

Section SAmom.
Variable xs : list F64.
Hypothesis Hn : (1 <= length xs)%nat.

Lemma Amom_jensen k : Amom xs 1 ^ k <= Amom xs k.
Proof.
  induction k as [|k IH]; [rewrite (Amom_0 xs Hn); simpl; lra|].
  cbn [pow]. replace (S k) with (1 + k)%nat by lia.
  eapply Rle_trans; [|apply (Amom_submult xs Hn 1 k)].
  apply Rmult_le_compat_l; [apply Amom_nonneg|exact IH].
Qed.

Lemma Smom_le k : Smom xs k <= 2 ^ S k * Amom xs k.
Proof.
  unfold Smom. set (N := INR (length xs)). assert (HN : 0 < N) by (apply lt_0_INR; exact Hn).
  assert (iN : 0 < / N) by (apply Rinv_0_lt_compat; exact HN).
  pose proof (Amom_jensen k) as J. pose proof (Amom_nonneg xs 1) as A1.
  assert (P2 : 0 <= 2 ^ k) by (apply pow_le; lra).
  apply Rle_trans with (Rsum (map (fun x => 2 ^ k * (sdev xs x ^ k + Amom xs 1 ^ k)) xs) / N).
  - unfold Rdiv. apply Rmult_le_compat_r; [lra|]. apply Rsum_map_le. intros x. unfold bdev.
    apply pow_sum_le; [apply Rlt_le, sdev_pos|exact A1].
  - rewrite Rsum_map_scal, (Rsum_map_plus (fun x => sdev xs x ^ k) (fun _ => Amom xs 1 ^ k)), Rsum_const. fold N.
    replace (2 ^ k * (Rsum (map (fun x => sdev xs x ^ k) xs) + N * Amom xs 1 ^ k) / N)
      with (2 ^ k * (Amom xs k + Amom xs 1 ^ k)) by (unfold Amom; fold N; field; lra).
    simpl pow. nra.
Qed.

Lemma Smom_nonneg k : 0 <= Smom xs k.
Proof.
  unfold Smom, Rdiv. apply Rmult_le_pos; [|apply Rlt_le, Rinv_0_lt_compat, lt_0_INR; exact Hn].
  apply Rsum_map_nonneg. intros x. apply pow_le, Rlt_le, bdev_pos.
Qed.

(* E_1 <= 5/2 A_1 when n u is small *)
Lemma Eraw1_le n : n = length xs -> g64 (n + 16) <= / 4 -> 0 <= Eraw n 1 (Amom xs) <= 5 / 2 * Amom xs 1.
Proof.
  intros En Hg. split; [apply Eraw_nonneg, Amom_nonneg|]. unfold Eraw.
  pose proof (mdelta_le_Amom1 xs Hn) as D. pose proof (eta_le_mdelta xs Hn) as E.
  pose proof (Amom_nonneg xs 1) as A1. pose proof u64_pos as Hu. pose proof eta64_pos as He.
  pose proof (g64_mono (n + 1 + 14) (n + 16) ltac:(lia)) as M. pose proof (g64_nonneg (n + 1 + 14)) as G0.
  assert (E1 : g64 (n + 1 + 14) * (1 + g64 1) <= g64 (n + 16)).
  { eapply Rle_trans; [apply g64_mul_le|]. apply g64_mono. lia. }
  assert (Q1 : g64 (n + 1 + 14) * ((1 + g64 1) * Amom xs 1) <= / 4 * Amom xs 1).
  { rewrite <- Rmult_assoc. apply Rmult_le_compat_r; lra. }
  simpl INR. nra.
Qed.

Lemma Tmom_le n k : n = length xs -> g64 (n + 16) <= / 4 ->
  Tmom xs (Eraw n 1 (Amom xs)) k <= 4 ^ k * Smom xs k.
Proof.
  intros En Hg. unfold Tmom, Smom. set (N := INR (length xs)). assert (HN : 0 < N) by (apply lt_0_INR; exact Hn).
  assert (iN : 0 < / N) by (apply Rinv_0_lt_compat; exact HN).
  destruct (Eraw1_le n En Hg) as [E0 E1]. pose proof u64_small as Hu4. pose proof u64_pos as Hu.
  unfold Rdiv. rewrite <- Rmult_assoc. apply Rmult_le_compat_r; [lra|].
  rewrite <- Rsum_map_scal. apply Rsum_map_le. intros x. rewrite <- Rpow_mult_distr. apply pow_incr.
  pose proof (bdev_pos xs x) as B. pose proof (sdev_pos xs x) as Sx.
  assert (A1b : Amom xs 1 <= bdev xs x) by (unfold bdev; lra).
  split; [nra|nra].
Qed.
End SAmom.

(* ------------------------------------------------------------------ *)
(* 2. The closed form for an abstract sub-multiplicative sequence       *)
(* ------------------------------------------------------------------ *)
Definition cmGc (n p : nat) : R := g64 (n + 2 * p + 14).
Definition cmr3 (n p : nat) : R := INR p * (1 + cmG n p) + 1.
Definition cmT (p : nat) : R := 4 ^ (p - 1) * 2 ^ p.
(* multiplies kappa * A_(p-1), hence mdelta * A_(p-1): first order in u64 *)
Definition cmD2 (n p : nat) (th : R) : R := INR p * cmK p th * (cmGc n p + u64 * cmr1 n p).
Definition cmD1 (n p : nat) (th : R) : R :=
  INR p * u64 * (1 + g64 (p - 1)) * 2 ^ S p + INR p * cmT p * g64 (n + 16) + cmGc n p
  + g64 (2 * S p) * (INR (S p) * cmK p th * cmr1 n p) + cmD2 n p th * g64 (n + 16).
Definition cmD3 (n p : nat) (th : R) : R :=
  INR p * cmT p * (2 + cmG n p) + cmr3 n p + INR p * cmK p th * cmr3 n p
  + INR p * cmK p th * (u64 * cmr3 n p + 1)
  + g64 (2 * S p) * (INR (S p) * cmK p th * cmr2 n p)
  + INR (S p) * ((1 + g64 (2 * p + 1)) * th ^ p) + cmD2 n p th * (2 + cmG n p).

Section SimplifyRep.
Variables (n p : nat) (A : nat -> R) (dl th Sp Tm : R).
Hypothesis Hp : (1 <= p)%nat.
Hypothesis A_nn : forall k, 0 <= A k.
Hypothesis A_0 : A 0%nat = 1.
Hypothesis A_sub : forall j k, A j * A k <= A (j + k)%nat.
Hypothesis A_W : forall j, (j <= p)%nat -> A j <= 1 + A p.
Hypothesis dl_nn : 0 <= dl.
Hypothesis Hth : 1 <= th.
Hypothesis Hkp : kappa n A dl <= th * A 1%nat.
Hypothesis HS : Sp <= 2 ^ S p * A p.
Hypothesis HT : Tm <= cmT p * A (p - 1)%nat.

Let kp := kappa n A dl.
Let W := 1 + A p.
Let G := cmG n p.
Let Gc := cmGc n p.
Let Cm := 2 ^ S p.
Let K := cmK p th.
Let r1 := cmr1 n p.
Let r2 := cmr2 n p.
Let r3 := cmr3 n p.

Lemma sr_Hq : (p <= S p)%nat. Proof. lia. Qed.

Lemma sr_G_nn : 0 <= G. Proof. apply g64_nonneg. Qed.
Lemma sr_Gc_nn : 0 <= Gc. Proof. apply g64_nonneg. Qed.
Lemma sr_r1 : 1 <= r1. Proof. unfold r1, cmr1. pose proof sr_G_nn. fold G. lra. Qed.
Lemma sr_r3 : 1 <= r3.
Proof. unfold r3, cmr3. fold G. pose proof sr_G_nn. pose proof (pos_INR p). nra. Qed.
Lemma sr_Cm : 1 <= Cm. Proof. unfold Cm. apply pow_R1_Rle. lra. Qed.
Lemma sr_binom j : 0 <= INR (binom p j) <= Cm.
Proof.
  split; [apply pos_INR|]. apply Rle_trans with (2 ^ p); [|unfold Cm; apply Rle_pow; [lra|lia]].
  replace 2 with (INR 2) by (simpl; lra). rewrite <- pow_INR. apply le_INR, binom_le_pow.
Qed.

(* Eraw and Rbd of order k <= p in the uniform constants *)
Lemma sr_Eraw_k k : (k <= p)%nat -> Eraw n k A <= Gc * A k + r3 * eta64.
Proof.
  intros Hk. unfold Eraw. pose proof (A_nn k) as Ak. pose proof eta64_pos as He. pose proof sr_G_nn as HG.
  assert (E1 : g64 (n + k + 14) * (1 + g64 k) <= Gc).
  { eapply Rle_trans; [apply g64_mul_le|]. unfold Gc, cmGc. apply g64_mono. lia. }
  assert (Q1 : g64 (n + k + 14) * ((1 + g64 k) * A k) <= Gc * A k).
  { rewrite <- Rmult_assoc. apply Rmult_le_compat_r; assumption. }
  assert (E2 : INR k * (1 + g64 (n + k + 14)) + 1 <= r3).
  { unfold r3, cmr3. fold G. apply Rplus_le_compat_r.
    apply Rmult_le_compat4; [apply pos_INR|pose proof (g64_nonneg (n + k + 14)); lra|apply le_INR; exact Hk|].
    unfold G, cmG. apply g64_1p_mono. lia. }
  assert (Q2 : (INR k * (1 + g64 (n + k + 14)) + 1) * eta64 <= r3 * eta64) by (apply Rmult_le_compat_r; lra).
  lra.
Qed.

Lemma sr_Rbd_k k : (k <= p)%nat -> Rbd n k A <= r1 * A k + r3 * eta64.
Proof.
  intros Hk. unfold Rbd, Eraw. pose proof (A_nn k) as Ak. pose proof eta64_pos as He. pose proof sr_G_nn as HG.
  assert (E1 : (1 + g64 k) * (1 + g64 (n + k + 14)) <= r1).
  { rewrite g64_add. unfold r1, cmr1, cmG. apply g64_1p_mono. lia. }
  assert (E2 : INR k * (1 + g64 (n + k + 14)) + 1 <= r3).
  { unfold r3, cmr3. fold G. apply Rplus_le_compat_r.
    apply Rmult_le_compat4; [apply pos_INR|pose proof (g64_nonneg (n + k + 14)); lra|apply le_INR; exact Hk|].
    unfold G, cmG. apply g64_1p_mono. lia. }
  replace ((1 + g64 k) * A k + (g64 (n + k + 14) * ((1 + g64 k) * A k) + (INR k * (1 + g64 (n + k + 14)) + 1) * eta64))
    with (((1 + g64 k) * (1 + g64 (n + k + 14))) * A k + (INR k * (1 + g64 (n + k + 14)) + 1) * eta64) by ring.
  apply Rplus_le_compat; apply Rmult_le_compat_r; lra.
Qed.

Lemma sr_cerr j : (j <= p)%nat -> 0 <= cerr n p A j <= Cm * (Gc * A (p - j)%nat + r3 * eta64).
Proof.
  intros Hj. unfold cerr. pose proof (sr_binom j) as B. pose proof (Eraw_nonneg n (p - j) A (A_nn _)) as E0.
  pose proof (sr_Eraw_k (p - j)%nat ltac:(lia)) as E.
  split; [apply Rmult_le_pos; lra|]. apply Rmult_le_compat4; lra.
Qed.

Lemma sr_cpert j : (j <= p)%nat ->
  0 <= cpert n p A j <= Cm * ((u64 * r1) * A (p - j)%nat + (u64 * r3 + 1) * eta64).
Proof.
  intros Hj. unfold cpert. pose proof (sr_binom j) as B. pose proof (Rbd_nonneg n (p - j) A (A_nn _)) as R0.
  pose proof (sr_Rbd_k (p - j)%nat ltac:(lia)) as R. pose proof u64_pos as Hu. pose proof eta64_pos as He.
  pose proof sr_Cm as HC.
  assert (P0 : 0 <= INR (binom p j) * Rbd n (p - j) A) by (apply Rmult_le_pos; lra).
  split; [assert (0 <= INR (binom p j) * Rbd n (p - j) A * u64) by (apply Rmult_le_pos; lra); lra|].
  assert (Q : INR (binom p j) * Rbd n (p - j) A <= Cm * (r1 * A (p - j)%nat + r3 * eta64)).
  { apply Rmult_le_compat4; lra. }
  assert (Q2 : INR (binom p j) * Rbd n (p - j) A * u64 <= Cm * (r1 * A (p - j)%nat + r3 * eta64) * u64).
  { apply Rmult_le_compat_r; lra. }
  assert (Z : eta64 <= Cm * eta64) by nra.
  replace (Cm * (u64 * r1 * A (p - j)%nat + (u64 * r3 + 1) * eta64))
    with (Cm * (r1 * A (p - j)%nat + r3 * eta64) * u64 + Cm * eta64) by ring.
  lra.
Qed.

(* E_1 * A_(p-1) *)
Lemma sr_E1A : Eraw n 1 A * A (p - 1)%nat <= g64 (n + 16) * A p + (2 + G) * (eta64 * W).
Proof.
  unfold Eraw.
  pose proof (A_sub 1 (p - 1)) as S1. replace (1 + (p - 1))%nat with p in S1 by lia.
  pose proof (A_nn 1%nat) as A1. pose proof (A_nn (p - 1)%nat) as Ap1. pose proof (A_nn p) as Ap.
  pose proof (A_W (p - 1)%nat ltac:(lia)) as AW. fold W in AW.
  pose proof u64_pos as Hu. pose proof eta64_pos as He. pose proof sr_G_nn as HG.
  assert (E1 : g64 (n + 1 + 14) * (1 + g64 1) <= g64 (n + 16)).
  { eapply Rle_trans; [apply g64_mul_le|]. apply g64_mono. lia. }
  assert (E2 : 0 <= INR 1 * (1 + g64 (n + 1 + 14)) + 1 <= 2 + G).
  { simpl INR. unfold G, cmG. pose proof (g64_mono (n + 1 + 14) (n + 2 * p + 15) ltac:(lia)).
    pose proof (g64_nonneg (n + 1 + 14)). lra. }
  replace ((g64 (n + 1 + 14) * ((1 + g64 1) * A 1%nat) + (INR 1 * (1 + g64 (n + 1 + 14)) + 1) * eta64) * A (p - 1)%nat)
    with ((g64 (n + 1 + 14) * (1 + g64 1)) * (A 1%nat * A (p - 1)%nat)
          + (INR 1 * (1 + g64 (n + 1 + 14)) + 1) * (eta64 * A (p - 1)%nat)) by ring.
  assert (Q1 : (g64 (n + 1 + 14) * (1 + g64 1)) * (A 1%nat * A (p - 1)%nat) <= g64 (n + 16) * A p).
  { apply Rmult_le_compat4; [pose proof (g64_nonneg (n + 1 + 14)); pose proof (g64_nonneg 1); nra|
                             apply Rmult_le_pos; lra|exact E1|exact S1]. }
  assert (Q2 : (INR 1 * (1 + g64 (n + 1 + 14)) + 1) * (eta64 * A (p - 1)%nat) <= (2 + G) * (eta64 * W)).
  { apply Rmult_le_compat4; [lra|apply Rmult_le_pos; lra|lra|]. apply Rmult_le_compat_l; lra. }
  lra.
Qed.

Theorem cm_bound_rep_closed :
  cm_bound_rep n p A Sp Tm dl
    <= cmD1 n p th * A p + cmD2 n p th * (dl * A (p - 1)%nat) + cmD3 n p th * (eta64 * W).
Proof.
  unfold cm_bound_rep. fold kp.
  pose proof u64_pos as Hu. pose proof eta64_pos as He. pose proof sr_G_nn as HG. pose proof sr_Gc_nn as HGc.
  pose proof sr_r1 as R1. pose proof sr_r3 as R3. pose proof (pos_INR p) as Pp. pose proof (pos_INR (S p)) as PSp.
  pose proof (A_nn p) as Ap. pose proof (A_nn (p - 1)%nat) as Ap1.
  assert (W1 : 1 <= W) by (unfold W; lra).
  assert (K0 : 0 <= K) by (unfold K, cmK; apply Rmult_le_pos; apply pow_le; lra).
  assert (kp0 : 0 <= kp) by (apply (sm_kp_nn n A dl A_nn dl_nn)).
  assert (E10 : 0 <= Eraw n 1 A) by (apply Eraw_nonneg, A_nn).
  assert (cT0 : 0 <= cmT p) by (unfold cmT; apply Rmult_le_pos; apply pow_le; lra).
  (* term 1 *)
  assert (T1 : INR p * u64 * (1 + g64 (p - 1)) * Sp <= (INR p * u64 * (1 + g64 (p - 1)) * 2 ^ S p) * A p).
  { replace ((INR p * u64 * (1 + g64 (p - 1)) * 2 ^ S p) * A p)
      with ((INR p * u64 * (1 + g64 (p - 1))) * (2 ^ S p * A p)) by ring.
    apply Rmult_le_compat_l; [|exact HS].
    pose proof (g64_nonneg (p - 1)). apply Rmult_le_pos; [apply Rmult_le_pos; lra|lra]. }
  (* term 2 *)
  assert (T2 : INR p * Eraw n 1 A * Tm
               <= (INR p * cmT p) * (g64 (n + 16) * A p + (2 + G) * (eta64 * W))).
  { apply Rle_trans with (INR p * Eraw n 1 A * (cmT p * A (p - 1)%nat)).
    - apply Rmult_le_compat_l; [apply Rmult_le_pos; lra|exact HT].
    - replace (INR p * Eraw n 1 A * (cmT p * A (p - 1)%nat)) with ((INR p * cmT p) * (Eraw n 1 A * A (p - 1)%nat)) by ring.
      apply Rmult_le_compat_l; [apply Rmult_le_pos; lra|exact sr_E1A]. }
  (* term 3: the first coefficient is the honest error of the p-th raw moment *)
  pose proof (gen_sumC p n p A dl th Hp sr_Hq A_nn A_0 A_sub A_W dl_nn Hth Hkp (cerr n p A) Gc r3
                HGc ltac:(lra) sr_cerr) as S3. cbv zeta in S3. fold kp W K in S3.
  assert (T3 : hornerR (map (cerr n p A) (seq 0 (S p))) kp
               <= Gc * A p + r3 * (eta64 * W) + INR p * (K * (Gc * (kp * A (p - 1)%nat) + r3 * eta64 * W))).
  { cbn [seq map]. rewrite hornerR_cons. apply Rplus_le_compat; [|exact S3].
    unfold cerr. rewrite binom_0_r, Nat.sub_0_r. simpl INR. rewrite Rmult_1_l.
    pose proof (sr_Eraw_k p (le_n p)) as E. assert (EW : eta64 <= eta64 * W) by nra.
    assert (r3 * eta64 <= r3 * (eta64 * W)) by (apply Rmult_le_compat_l; lra). lra. }
  (* term 4 *)
  pose proof (gen_sumC p n p A dl th Hp sr_Hq A_nn A_0 A_sub A_W dl_nn Hth Hkp (cpert n p A) (u64 * r1) (u64 * r3 + 1)
                ltac:(nra) ltac:(nra) sr_cpert) as T4. cbv zeta in T4. fold kp W K in T4.
  (* term 5 *)
  pose proof (sm_sumD p n p A dl th Hp sr_Hq A_nn A_0 A_sub A_W dl_nn Hth Hkp) as S5. cbv zeta in S5.
  fold kp W K r1 r2 in S5.
  assert (T5 : g64 (2 * S p) * hornerR (map (cbdq p n p A) (seq 0 (S p))) kp
               <= g64 (2 * S p) * (INR (S p) * (K * (r1 * A p + r2 * eta64 * W)))).
  { apply Rmult_le_compat_l; [apply g64_nonneg|exact S5]. }
  pose proof (sm_sumE p n p A dl th Hp sr_Hq A_nn A_0 A_sub A_W dl_nn Hth Hkp) as T6. cbv zeta in T6. fold kp W in T6.
  (* kp * A_(p-1) *)
  pose proof (sm_kpA p n p A dl Hp sr_Hq A_nn A_sub A_W) as KA. cbv zeta in KA. fold kp W G in KA.
  set (Y := kp * A (p - 1)%nat) in *.
  assert (D20 : 0 <= cmD2 n p th).
  { unfold cmD2. fold K Gc r1. apply Rmult_le_pos; [apply Rmult_le_pos; lra|nra]. }
  assert (TY : INR p * (K * (Gc * Y + r3 * eta64 * W)) + INR p * (K * (u64 * r1 * Y + (u64 * r3 + 1) * eta64 * W))
               = cmD2 n p th * Y + (INR p * K * r3 + INR p * K * (u64 * r3 + 1)) * (eta64 * W)).
  { unfold cmD2. fold K Gc r1. ring. }
  assert (TY2 : cmD2 n p th * Y <= cmD2 n p th * (dl * A (p - 1)%nat + g64 (n + 16) * A p + (2 + G) * (eta64 * W))).
  { apply Rmult_le_compat_l; [exact D20|exact KA]. }
  unfold cmD1, cmD3. fold K G Gc r1 r2 r3.
  set (a := A p) in *. set (b := dl * A (p - 1)%nat) in *. set (w := eta64 * W) in *.
  replace (r2 * eta64 * W) with (r2 * w) in * by (unfold w; ring).
  replace (r3 * eta64 * W) with (r3 * w) in * by (unfold w; ring).
  replace ((u64 * r3 + 1) * eta64 * W) with ((u64 * r3 + 1) * w) in * by (unfold w; ring).
  replace ((1 + g64 (2 * p + 1)) * th ^ p * w) with (((1 + g64 (2 * p + 1)) * th ^ p) * w) in T6 by ring.
  set (D2 := cmD2 n p th) in *.
  lra.
Qed.
End SimplifyRep.

(* ------------------------------------------------------------------ *)
(* 3. The headline theorem of the repaired routine in closed form        *)
(* ------------------------------------------------------------------ *)
Lemma cm_bound_rep_Amom_closed (xs : list F64) n p : n = length xs -> (1 <= n)%nat -> (1 <= p)%nat ->
  g64 (n + 16) <= / 4 ->
  cm_bound_rep n p (Amom xs) (Smom xs p) (Tmom xs (Eraw n 1 (Amom xs)) (p - 1)) (mdelta xs)
    <= cmD1 n p 4 * Amom xs p + cmD2 n p 4 * (mdelta xs * Amom xs (p - 1))
       + cmD3 n p 4 * (eta64 * (1 + Amom xs p)).
Proof.
  intros En Hn Hp Hg. assert (Hn' : (1 <= length xs)%nat) by lia.
  apply (cm_bound_rep_closed n p (Amom xs) (mdelta xs) 4); try assumption.
  - apply Amom_nonneg.
  - apply Amom_0. exact Hn'.
  - apply Amom_submult. exact Hn'.
  - intros j Hj. apply Amom_le_1p; assumption.
  - apply Rlt_le, mdelta_pos.
  - lra.
  - apply kappa_le_4; assumption.
  - apply Smom_le. exact Hn'.
  - eapply Rle_trans; [apply (Tmom_le xs Hn' n (p - 1) En Hg)|].
    unfold cmT. rewrite Rmult_assoc. apply Rmult_le_compat_l; [apply pow_le; lra|].
    pose proof (Smom_le xs Hn' (p - 1)) as Q. replace (S (p - 1)) with p in Q by lia. exact Q.
Qed.

Section ClosedRep.
Variables lt et : list (Z * Z).
Let O := f64_ops lt et.

Theorem central_moment_error_closed pl (xs : list F64) p n :
  plan_ok pl n -> n = length xs -> (1 <= n)%nat -> (Z.of_nat n <= 2 ^ 53)%Z ->
  (2 <= p <= 53)%nat -> fin (central_moment O pl xs p) = true ->
  g64 (n + 16) <= / 4 ->
  Rabs (B2R (central_moment O pl xs p) - cmu xs p)
    <= cmD1 n p 4 * Amom xs p + cmD2 n p 4 * (mdelta xs * Amom xs (p - 1))
       + cmD3 n p 4 * (eta64 * (1 + Amom xs p)).
Proof.
  intros HP En H1 H2 Hp Hf Hg.
  eapply Rle_trans; [apply (central_moment_error lt et pl xs p n); assumption|].
  apply cm_bound_rep_Amom_closed; try assumption. lia.
Qed.
End ClosedRep.

(* D1 and D2 are of first order in the unit roundoff *)
Lemma cmD2_first_order n p th : 1 <= th -> INR (n + 2 * p + 15) * u64 <= / 2 ->
  0 <= cmD2 n p th <= (INR p * cmK p th * (2 * INR (n + 2 * p + 14) + 2)) * u64.
Proof.
  intros Hth Hs. pose proof u64_pos as Hu. unfold cmD2, cmGc, cmr1, cmG.
  assert (L1 : g64 (n + 2 * p + 14) <= 2 * INR (n + 2 * p + 14) * u64).
  { apply g64_le_lin. apply Rle_trans with (INR (n + 2 * p + 15) * u64); [|exact Hs].
    apply Rmult_le_compat_r; [lra|apply le_INR; lia]. }
  assert (L2 : g64 (n + 2 * p + 15) <= 1).
  { pose proof (g64_le_lin (n + 2 * p + 15) Hs). lra. }
  pose proof (g64_nonneg (n + 2 * p + 14)) as G1. pose proof (g64_nonneg (n + 2 * p + 15)) as G2.
  assert (K0 : 0 <= cmK p th) by (unfold cmK; apply Rmult_le_pos; apply pow_le; lra).
  pose proof (pos_INR p) as Pp.
  assert (PK : 0 <= INR p * cmK p th) by (apply Rmult_le_pos; assumption).
  split; [apply Rmult_le_pos; [exact PK|nra]|].
  replace (INR p * cmK p th * (2 * INR (n + 2 * p + 14) + 2) * u64)
    with ((INR p * cmK p th) * ((2 * INR (n + 2 * p + 14) + 2) * u64)) by ring.
  apply Rmult_le_compat_l; [exact PK|]. nra.
Qed.

Lemma cmD1_first_order n p th : (1 <= p)%nat -> 1 <= th -> INR (n + 2 * p + 15) * u64 <= / 2 ->
  cmD1 n p th <= (4 * INR p * 2 ^ S p + 2 * INR p * cmT p * INR (n + 16) + 2 * INR (n + 2 * p + 14)
                  + 8 * INR (S p) * INR (S p) * cmK p th
                  + INR p * cmK p th * (2 * INR (n + 2 * p + 14) + 2)) * u64.
Proof.
  intros Hp Hth Hs. pose proof u64_pos as Hu.
  assert (L : forall m, (m <= n + 2 * p + 15)%nat -> g64 m <= 2 * INR m * u64).
  { intros m Hm. apply g64_le_lin. apply Rle_trans with (INR (n + 2 * p + 15) * u64); [|exact Hs].
    apply Rmult_le_compat_r; [lra|apply le_INR; exact Hm]. }
  pose proof (L (p - 1)%nat ltac:(lia)) as L0. pose proof (L (n + 16)%nat ltac:(lia)) as L3.
  pose proof (L (n + 2 * p + 14)%nat ltac:(lia)) as L2. pose proof (L (2 * S p)%nat ltac:(lia)) as L4.
  pose proof (L (n + 2 * p + 15)%nat ltac:(lia)) as L5.
  assert (G01 : g64 (p - 1) <= 1).
  { assert (INR (p - 1) * u64 <= / 2); [|lra].
    apply Rle_trans with (INR (n + 2 * p + 15) * u64); [|exact Hs]. apply Rmult_le_compat_r; [lra|apply le_INR; lia]. }
  pose proof (g64_nonneg (p - 1)) as G00. pose proof (g64_nonneg (n + 16)) as G30. pose proof (g64_nonneg (2 * S p)) as G40.
  assert (K0 : 0 <= cmK p th) by (unfold cmK; apply Rmult_le_pos; apply pow_le; lra).
  assert (R1 : 0 <= cmr1 n p <= 2) by (unfold cmr1, cmG; pose proof (g64_nonneg (n + 2 * p + 15)); lra).
  assert (cT0 : 0 <= cmT p) by (unfold cmT; apply Rmult_le_pos; apply pow_le; lra).
  assert (P2 : 0 <= 2 ^ S p) by (apply pow_le; lra).
  pose proof (pos_INR p) as Pp. pose proof (pos_INR (S p)) as PSp. pose proof (pos_INR (n + 16)) as Pn.
  destruct (cmD2_first_order n p th Hth Hs) as [D20 D2].
  unfold cmD1. fold (cmGc n p). unfold cmGc.
  assert (T1 : INR p * u64 * (1 + g64 (p - 1)) * 2 ^ S p <= (4 * INR p * 2 ^ S p) * u64).
  { replace (INR p * u64 * (1 + g64 (p - 1)) * 2 ^ S p) with ((INR p * 2 ^ S p * u64) * (1 + g64 (p - 1))) by ring.
    replace (4 * INR p * 2 ^ S p * u64) with ((INR p * 2 ^ S p * u64) * 4) by ring.
    apply Rmult_le_compat_l; [apply Rmult_le_pos; [apply Rmult_le_pos; lra|lra]|lra]. }
  assert (T2 : INR p * cmT p * g64 (n + 16) <= (INR p * cmT p) * (2 * INR (n + 16) * u64)).
  { apply Rmult_le_compat_l; [apply Rmult_le_pos; lra|exact L3]. }
  assert (E2 : INR (2 * S p) = 2 * INR (S p)) by (rewrite mult_INR; simpl INR; lra).
  assert (T4 : g64 (2 * S p) * (INR (S p) * cmK p th * cmr1 n p) <= (2 * INR (2 * S p) * u64) * (INR (S p) * cmK p th * 2)).
  { apply Rmult_le_compat4; [exact G40| |exact L4|].
    - apply Rmult_le_pos; [apply Rmult_le_pos; assumption|lra].
    - apply Rmult_le_compat_l; [apply Rmult_le_pos; assumption|lra]. }
  assert (T5 : cmD2 n p th * g64 (n + 16) <= ((INR p * cmK p th * (2 * INR (n + 2 * p + 14) + 2)) * u64) * 1).
  { apply Rmult_le_compat4; [exact D20|exact G30|exact D2|].
    assert (INR (n + 16) * u64 <= / 2); [|lra].
    apply Rle_trans with (INR (n + 2 * p + 15) * u64); [|exact Hs]. apply Rmult_le_compat_r; [lra|apply le_INR; lia]. }
  rewrite E2 in T4. lra.
Qed.

Example central_moment_error_closed_example : forall p, In p [2; 3; 4]%nat ->
  let xs := map f64_of_Z [1; 2; 4; 7; 11; 16; 22]%Z in
  let pl := PRows [(true, [0; 1; 2; 3]%nat); (false, [4; 5; 6]%nat)] in
  Rabs (B2R (central_moment (f64_ops [] []) pl xs p) - cmu xs p)
    <= cmD1 7 p 4 * Amom xs p + cmD2 7 p 4 * (mdelta xs * Amom xs (p - 1))
       + cmD3 7 p 4 * (eta64 * (1 + Amom xs p)).
Proof.
  intros p Hp xs pl.
  assert (Hp' : (2 <= p <= 53)%nat) by (cbn [In] in Hp; lia).
  apply (central_moment_error_closed [] [] pl xs p 7); [apply Permutation_refl|reflexivity|lia|lia|exact Hp'| |].
  - cbn [In] in Hp. repeat (destruct Hp as [<-|Hp]; [vm_compute; reflexivity|]). elim Hp.
  - apply g64_small_of_lin. pose proof u64_le_2p10. pose proof u64_pos. simpl INR. lra.
Qed.

Print Assumptions cm_bound_rep_closed.
Print Assumptions central_moment_error_closed.
