(* PRE-REPAIR routine (defect D7).  The second central moment computed by central_moment_v0 O pl xs 2:
   a sharper bound than the general one.  For p = 2 the pre-repair correction polynomial of means.rs is
       r_2 + corr * (3 r_1 + 3 corr)      with corr = - r_1,
   which is r_2 up to rounding (the binomial coefficients of order 3 = len(moments) make the
   correction cancel instead of subtracting r_1^2), and (1/n) sum (x_i - m)^2 = mu_2 + (m - xbar)^2:
   the error of the mean enters only through its SQUARE.

     |fl(central_moment 2) - mu_2| <= g64 2 * A_2 + mdelta^2 + Eraw n 2 A
                                       + kp (3 kp u64 + eta64)
                                       + g64 6 * (Rbd n 2 A + kp (3 kp (1 + u64) + eta64 + 3 kp)) + hornerU 3 kp

   with kp = kappa n A mdelta the bound on |corr|: every term is either O(u) * A_2 or of second
   order in (mdelta, kp), or an underflow term. *)
From Flocq Require Import Core BinarySingleNaN Plus_error Relative.
Require Import Reals Lra Lia ZArith Psatz Bool List Arith Permutation.
From NS Require Import Num.F64 Num.Ops Num.F64Inst Num.Kernels Num.SumBridge Num.SumF64
  Quantile.IndexProofs Quantile.InterpF64 Num.DeviationF64 Num.MeansF64 Num.CovF64 Num.PowiF64
  Num.MomentsErrF64 Num.HornerF64 Num.CentralMomentF64.
Import ListNotations.
Open Scope R_scope.

Local Instance prec64_gt_0V : Prec_gt_0 53 := Hprec64.
Local Instance vexp64V : Valid_exp (SpecFloat.fexp 53 1024) := fexp_correct 53 1024 Hprec64.

(* ------------------------------------------------------------------ *)
(* 1. The second raw moment of the shifted data                         *)
(* ------------------------------------------------------------------ *)
Lemma Rsum_sq_shift {T} (f : T -> R) (c : R) (l : list T) :
  Rsum (map (fun a => (f a - c) ^ 2) l)
  = Rsum (map (fun a => f a ^ 2) l) - 2 * c * Rsum (map f l) + INR (length l) * (c * c).
Proof.
  induction l as [|a l IH]; cbn [map length]; rewrite ?Rsum_nil, ?Rsum_cons.
  - simpl. ring.
  - rewrite IH. change (length (a :: l)) with (S (length l)). rewrite S_INR. ring.
Qed.

Theorem shifted_second_moment (xs : list F64) (m : F64) :
  (1 <= length xs)%nat -> Rabs (B2R m - meanR xs) <= mdelta xs ->
  Forall (fun x => fin (fsub x m) = true) xs ->
  Rabs (rho (dev xs m) 2 - cmu xs 2) <= g64 2 * Amom xs 2 + mdelta xs * mdelta xs.
Proof.
  intros Hn Hm Hfin. rewrite (rho_dev xs m). unfold cmu, Amom.
  set (N := INR (length xs)). assert (HN : 0 < N) by (apply lt_0_INR; exact Hn).
  assert (iN : 0 < / N) by (apply Rinv_0_lt_compat; exact HN).
  set (eps := B2R m - meanR xs) in *.
  (* sum (x_i - m)^2 = sum (x_i - xbar)^2 + n eps^2 *)
  assert (EQ : Rsum (map (fun x : F64 => (B2R x - B2R m) ^ 2) xs)
               = Rsum (map (fun x : F64 => (B2R x - meanR xs) ^ 2) xs) + N * (eps * eps)).
  { rewrite (Rsum_map_ext (fun x : F64 => (B2R x - B2R m) ^ 2) (fun x : F64 => ((B2R x - meanR xs) - eps) ^ 2))
      by (intros x; unfold eps; f_equal; ring).
    rewrite (Rsum_sq_shift (fun x : F64 => B2R x - meanR xs) eps xs).
    replace (Rsum (map (fun x : F64 => B2R x - meanR xs) xs)) with 0 by (symmetry; exact (centred_sum_zero xs Hn)).
    fold N. ring. }
  (* the roundings of the subtractions *)
  assert (D : Rabs (Rsum (map (fun x : F64 => B2R (fsub x m) ^ 2) xs)
                    - Rsum (map (fun x : F64 => (B2R x - B2R m) ^ 2) xs))
              <= Rsum (map (fun x : F64 => g64 2 * sdev xs x ^ 2) xs)).
  { apply Rsum_map_absdiff_in. intros x Hx.
    destruct (dev_elem xs m Hm Hfin x Hx) as ((e & He & E) & _ & _ & _). rewrite E.
    replace (((B2R x - B2R m) * (1 + e)) ^ 2 - (B2R x - B2R m) ^ 2)
      with ((B2R x - B2R m) ^ 2 * ((1 + e) * (1 + e) - 1)) by ring.
    rewrite Rabs_mult, Rmult_comm.
    apply Rmult_le_compat; try apply Rabs_pos; [exact (two_eps_g e e He He)|].
    rewrite <- RPow_abs. apply pow_incr. split; [apply Rabs_pos|].
    unfold sdev. replace (B2R x - B2R m) with ((B2R x - meanR xs) + - eps) by (unfold eps; ring).
    eapply Rle_trans; [apply Rabs_triang|]. rewrite Rabs_Ropp. lra. }
  rewrite Rsum_map_scal, EQ in D.
  set (Sd := Rsum (map (fun x : F64 => B2R (fsub x m) ^ 2) xs)) in *.
  set (St := Rsum (map (fun x : F64 => (B2R x - meanR xs) ^ 2) xs)) in *.
  set (Sa := Rsum (map (fun x : F64 => sdev xs x ^ 2) xs)) in *.
  replace (Sd / N - St / N) with ((Sd - (St + N * (eps * eps))) * / N + eps * eps) by (field; lra).
  eapply Rle_trans; [apply Rabs_triang|]. rewrite Rabs_mult, (Rabs_pos_eq (/ N)) by lra.
  assert (Q1 : Rabs (Sd - (St + N * (eps * eps))) * / N <= g64 2 * Sa * / N).
  { apply Rmult_le_compat_r; [lra|exact D]. }
  assert (Q2 : Rabs (eps * eps) <= mdelta xs * mdelta xs).
  { rewrite Rabs_mult. apply Rmult_le_compat; try apply Rabs_pos; exact Hm. }
  unfold Rdiv. lra.
Qed.

(* ------------------------------------------------------------------ *)
(* 2. The bound and the theorem                                         *)
(* ------------------------------------------------------------------ *)
Definition var_bound (n : nat) (A : nat -> R) (dl : R) : R :=
  let kp := kappa n A dl in
  g64 2 * A 2%nat + dl * dl + Eraw n 2 A + kp * (3 * kp * u64 + eta64)
  + g64 6 * (Rbd n 2 A + kp * ((3 * kp * (1 + u64) + eta64) + kp * 3)) + hornerU 3 kp.

Section Var.
Variables lt et : list (Z * Z).
Let O := f64_ops lt et.

Theorem central_moment2_v0_error pl (xs : list F64) n :
  plan_ok pl n -> n = length xs -> (1 <= n)%nat -> (Z.of_nat n <= 2 ^ 53)%Z ->
  fin (central_moment_v0 O pl xs 2) = true ->
  Rabs (B2R (central_moment_v0 O pl xs 2) - cmu xs 2) <= var_bound n (Amom xs) (mdelta xs).
Proof.
  intros HP En H1 H2 Hf.
  rewrite (central_moment_v0_shape lt et) in Hf |- * by lia. cbv zeta in Hf |- *.
  destruct (cm_run_facts lt et 3 pl xs 2 n HP En H1 H2 ltac:(lia) ltac:(lia) Hf)
    as (Hm & Hfin & RB & Ecorr & Hcorr & Ecf & EH).
  cbv zeta in *. fold O in Hm, Hfin, RB, Ecorr, Hcorr, Ecf, EH |- *.
  set (m := mean O pl xs) in *. set (ds := dev xs m) in *.
  set (rm := mom_k lt et (plan_of_map pl (length xs)) ds) in *.
  set (corr := fneg (rm 1%nat)) in *.
  set (A := Amom xs) in *. set (dl := mdelta xs) in *.
  assert (Hn' : (1 <= length xs)%nat) by lia.
  set (kp := kappa n A dl) in *.
  pose proof u64_pos as Hu. pose proof eta64_pos as Het.
  (* the three coefficients *)
  pose proof (Ecf 0%nat ltac:(lia)) as E0. pose proof (Ecf 1%nat ltac:(lia)) as E1.
  pose proof (Ecf 2%nat ltac:(lia)) as E2.
  cbn [binom Nat.sub plus] in E0, E1, E2.
  replace (INR 1) with 1 in E0 by (simpl; lra). replace (INR 3) with 3 in E1, E2 by (simpl; lra).
  rewrite Rmult_1_l, (rnd_id _ (fmt_B2R _)) in E0.
  assert (Er0 : B2R (rm 0%nat) = 1) by exact (proj2 fone_spec). rewrite Er0, Rmult_1_r in E2.
  assert (F3 : fmt 3).
  { destruct (f64_of_Z_exact 3 ltac:(lia)) as [_ E]. rewrite <- E. apply fmt_B2R. }
  rewrite (rnd_id 3 F3) in E2.
  cbn [seq map binom Nat.sub plus] in EH |- *. change (2 * 3)%nat with 6%nat in EH. rewrite !hornerR_cons in EH.
  rewrite E0, E2 in EH. rewrite E1 in EH.
  set (c0 := B2R (rm 2%nat)) in *. set (r1 := B2R (rm 1%nat)) in *.
  set (X := B2R corr) in *.
  set (c1 := rnd (3 * r1)) in *.
  change (hornerR [] X) with 0 in EH. change (hornerR [] (Rabs X)) with 0 in EH.
  assert (Ar1 : Rabs r1 <= kp) by (rewrite Ecorr, Rabs_Ropp in Hcorr; exact Hcorr).
  assert (kp0 : 0 <= kp) by (pose proof (Rabs_pos X); lra).
  (* the exact polynomial collapses to r_2 up to the rounding of 3 r_1 *)
  destruct (rnd_model (3 * r1)) as (e & e' & He & He' & Ec1). fold c1 in Ec1.
  assert (T2 : Rabs (X * (c1 + X * (3 + X * 0))) <= kp * (3 * kp * u64 + eta64)).
  { rewrite Ecorr, Ec1.
    replace (- r1 * (3 * r1 * (1 + e) + e' + - r1 * (3 + - r1 * 0))) with (- r1 * (3 * r1 * e + e')) by ring.
    rewrite Rabs_mult, Rabs_Ropp. apply Rmult_le_compat; try apply Rabs_pos; [exact Ar1|].
    eapply Rle_trans; [apply Rabs_triang|]. apply Rplus_le_compat; [|exact He'].
    rewrite !Rabs_mult, (Rabs_pos_eq 3) by lra.
    apply Rmult_le_compat; [apply Rmult_le_pos; [lra|apply Rabs_pos]|apply Rabs_pos| |exact He].
    apply Rmult_le_compat_l; [lra|exact Ar1]. }
  (* magnitudes for the rounding error of Horner's rule *)
  assert (Ac1 : Rabs c1 <= 3 * kp * (1 + u64) + eta64).
  { unfold c1. replace 3 with (INR 3) at 1 by (simpl; lra).
    eapply Rle_trans; [apply coef_abs|]. replace (INR 3) with 3 by (simpl; lra).
    apply Rplus_le_compat_r. apply Rmult_le_compat_r; [lra|]. apply Rmult_le_compat_l; [lra|exact Ar1]. }
  destruct (RB 2%nat ltac:(lia)) as [Ac0 T3]. specialize (T3 ltac:(lia)). fold c0 in Ac0, T3.
  assert (T1 : Rabs (B2R (horner O [fmul (f64_of_Z (Z.of_nat 1)) (rm 2%nat); fmul (f64_of_Z (Z.of_nat 3)) (rm 1%nat);
                                    fmul (f64_of_Z (Z.of_nat 3)) (rm 0%nat)] corr)
                     - (c0 + X * (c1 + X * (3 + X * 0))))
               <= g64 6 * (Rbd n 2 A + kp * ((3 * kp * (1 + u64) + eta64) + kp * 3)) + hornerU 3 kp).
  { eapply Rle_trans; [exact EH|]. apply Rplus_le_compat.
    - apply Rmult_le_compat_l; [apply g64_nonneg|].
      rewrite (Rabs_pos_eq 3) by lra. rewrite Rmult_0_r, Rplus_0_r.
      assert (P1 : Rabs X * 3 <= kp * 3) by lra.
      assert (P2 : Rabs X * (Rabs c1 + Rabs X * 3) <= kp * ((3 * kp * (1 + u64) + eta64) + kp * 3)).
      { apply Rmult_le_compat; [apply Rabs_pos| |exact Hcorr|lra].
        pose proof (Rabs_pos c1). pose proof (Rabs_pos X). nra. }
      lra.
    - apply hornerU_mono. split; [apply Rabs_pos|exact Hcorr]. }
  pose proof (shifted_second_moment xs m Hn' Hm Hfin) as T4. fold ds dl A in T4.
  unfold var_bound. fold kp.
  set (res := B2R (horner O [fmul (f64_of_Z (Z.of_nat 1)) (rm 2%nat); fmul (f64_of_Z (Z.of_nat 3)) (rm 1%nat);
                             fmul (f64_of_Z (Z.of_nat 3)) (rm 0%nat)] corr)) in *.
  replace (res - cmu xs 2)
    with ((res - (c0 + X * (c1 + X * (3 + X * 0)))) + X * (c1 + X * (3 + X * 0))
          + (c0 - rho ds 2) + (rho ds 2 - cmu xs 2)) by ring.
  eapply Rle_trans; [apply Rabs_triang|].
  eapply Rle_trans; [apply Rplus_le_compat_r, Rabs_triang|].
  eapply Rle_trans; [apply Rplus_le_compat_r, Rplus_le_compat_r, Rabs_triang|].
  lra.
Qed.
End Var.

Print Assumptions central_moment2_v0_error.
