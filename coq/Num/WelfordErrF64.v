(* Forward error analysis in IEEE-754 binary64 of ndarray's var_axis / std_axis lane kernel
   (Num/WelfordF64.v: Welford's update with a fused multiply-add), for lanes of any length:
   the computed running mean and running sum of squares against the exact
       meanR xs = (sum x) / n,      ssR xs = sum (x - meanR xs)^2,
   then the returned variance  sum_sq / (n - ddof)  and standard deviation.
   The ONLY hypotheses are: the observations lie in [lo, hi] with |lo|, |hi| <= X, the final sum
   of squares is finite (then everything before it is, Num/WelfordF64.v), and n <= N <= 2^53.
   The a-priori range facts of Num/WelfordF64.v (computed mean in [lo, hi]) make the bounds depend
   on the SPREAD D = hi - lo:
       |mean_fl - mean| <= (1+u)^n (g2 D + (n+1)/2 (u X + eta))
       |ssq_fl  - S   | <= (1+u)^n ((g2 + n u) S + 2 D (1+g2)(1+u)^n (n g2 D + n(n+3)/4 (u X + eta)) + n eta)
   (g2 = (1+u)^2 - 1), polynomial forms under n u <= 1/64 in section 6. *)
From Flocq Require Import Core BinarySingleNaN Plus_error Relative.
Require Import Reals Lra Lia ZArith Psatz Bool List.
From NS Require Import Num.F64 Num.Ops Num.F64Inst Num.SumBridge Num.SumF64
  Quantile.IndexProofs Quantile.InterpF64 Num.DeviationF64 Num.MeansF64 Num.CovF64 Num.DerivedF64.
From NS Require Import Num.WestErrR Num.WestErrF64 Num.WelfordF64 Num.WelfordErrR.
Import ListNotations.
Open Scope R_scope.

Local Instance prec64_gt_0WE : Prec_gt_0 53 := Hprec64.
Local Instance vexp64WE : Valid_exp fx := fexp_correct 53 1024 Hprec64.

(* ------------------------------------------------------------------ *)
(* 1. One executable step in the factor model                          *)
(* ------------------------------------------------------------------ *)
Lemma welford_step_wfstep (i : nat) (m s x : F64) :
  (Z.of_nat (i + 1) <= 2 ^ 53)%Z ->
  let st' := welford_step (i, m, s) x in
  fin (wq st') = true ->
  wfstep (Rcount i) (B2R m) (B2R s) (B2R x) (B2R (wm st')) (B2R (wq st')).
Proof.
  intros Hi st' Hf.
  destruct (welford_step_vals i m s x Hi Hf) as (_ & Em' & Es'). cbv zeta in Em', Es'. fold st' in Em', Es'.
  destruct (rnd_minus_fac (B2R x) (B2R m) (fmt_B2R _) (fmt_B2R _)) as (f3 & R3 & E3).
  set (delta := rnd (B2R x - B2R m)) in *.
  destruct (rnd_fac (delta / Rcount i)) as (f2 & h2 & R2 & H2 & E2).
  set (q := rnd (delta / Rcount i)) in *.
  destruct (rnd_plus_fac (B2R m) q (fmt_B2R _) (rnd_fmt _)) as (f5 & R5 & E5).
  destruct (rnd_minus_fac (B2R x) (B2R (wm st')) (fmt_B2R _) (fmt_B2R _)) as (f6 & R6 & E6).
  set (d2 := rnd (B2R x - B2R (wm st'))) in *.
  destruct (rnd_fac (d2 * delta + B2R s)) as (f8 & h8 & R8 & H8 & E8).
  exists f2, f3, f5, f6, f8, h2, h8.
  split; [repeat split; (apply R2 || apply R3 || apply R5 || apply R6 || apply R8)|].
  split; [split; assumption|].
  split.
  - rewrite Em', E5, E2, E3. reflexivity.
  - rewrite Es', E8, E6, E3. reflexivity.
Qed.

(* the first step is exact *)
Lemma welford_first (x : F64) : fin (wq (welford_run [x])) = true ->
  B2R (wm (welford_run [x])) = B2R x /\ B2R (wq (welford_run [x])) = 0.
Proof.
  intros Hf. change (welford_run [x]) with (welford_step (0%nat, fzero, fzero) x) in *.
  destruct (welford_step_vals 0 fzero fzero x ltac:(cbn; lia) Hf) as (_ & Em' & Es'). cbv zeta in Em', Es'.
  rewrite B2R_fzero in Em', Es'.
  assert (E1 : B2R (wm (welford_step (0%nat, fzero, fzero) x)) = B2R x).
  { rewrite Em'. unfold Rcount. cbn [Nat.add INR]. apply wf_first. apply fmt_B2R. }
  split; [exact E1|].
  rewrite Es', E1. replace (B2R x - B2R x) with 0 by ring.
  rewrite rnd_0, Rmult_0_l, Rplus_0_r. apply rnd_0.
Qed.

(* ------------------------------------------------------------------ *)
(* 2. The exact prefix quantities                                      *)
(* ------------------------------------------------------------------ *)
Definition sumR (l : list F64) : R := Rsum (map B2R l).
(* sum of squared deviations from a centre c, and from the exact mean *)
Definition ssC (c : R) (l : list F64) : R := Rsum (map (fun v : F64 => (B2R v - c) * (B2R v - c)) l).
Definition ssR (l : list F64) : R := ssC (meanR l) l.

Lemma sumR_snoc (l : list F64) (x : F64) : sumR (l ++ [x]) = sumR l + B2R x.
Proof. unfold sumR. rewrite map_app, Rsum_app. cbn [map]. rewrite Rsum_cons, Rsum_nil, Rplus_0_r. reflexivity. Qed.

Lemma ssC_snoc (c : R) (l : list F64) (x : F64) : ssC c (l ++ [x]) = ssC c l + (B2R x - c) * (B2R x - c).
Proof. unfold ssC. rewrite map_app, Rsum_app. cbn [map]. rewrite Rsum_cons, Rsum_nil, Rplus_0_r. reflexivity. Qed.

Lemma ssC_nonneg (c : R) (l : list F64) : 0 <= ssC c l.
Proof.
  unfold ssC. apply Rsum_map_nonneg. intros a.
  apply Rle_0_sqr.
Qed.
Lemma ssR_nonneg (l : list F64) : 0 <= ssR l.
Proof. apply ssC_nonneg. Qed.

Lemma ssC_shift (c m : R) (l : list F64) :
  ssC c l = ssC m l + 2 * (m - c) * Rsum (map (fun v : F64 => B2R v - m) l) + INR (length l) * ((m - c) * (m - c)).
Proof.
  unfold ssC. induction l as [|v l IH]; cbn [map length].
  - unfold Rsum. cbn [fold_right INR]. ring.
  - rewrite !Rsum_cons, IH. change (length (v :: l)) with (S (length l)). rewrite S_INR. ring.
Qed.

Lemma ssC_mean (c : R) (l : list F64) : (1 <= length l)%nat ->
  ssC c l = ssR l + INR (length l) * ((meanR l - c) * (meanR l - c)).
Proof.
  intros Hn.
  assert (Z : Rsum (map (fun v : F64 => B2R v - meanR l) l) = 0) by exact (centred_sum_zero l Hn).
  unfold ssR. rewrite (ssC_shift c (meanR l) l), Z. ring.
Qed.

Lemma meanR_snoc (l : list F64) (x : F64) : (1 <= length l)%nat ->
  meanR (l ++ [x]) = meanR l + (B2R x - meanR l) / (INR (length l) + 1).
Proof.
  intros Hn. unfold meanR. fold (sumR (l ++ [x])). fold (sumR l).
  rewrite sumR_snoc, app_length. cbn [length]. rewrite plus_INR. cbn [INR].
  assert (0 < INR (length l)) by (apply lt_0_INR; lia). field. lra.
Qed.

Lemma ssR_snoc (l : list F64) (x : F64) : (1 <= length l)%nat ->
  ssR (l ++ [x]) = ssR l + (B2R x - meanR (l ++ [x])) * (B2R x - meanR l).
Proof.
  intros Hn. unfold ssR at 1. rewrite ssC_snoc, (ssC_mean _ l Hn), (meanR_snoc l x Hn).
  assert (0 < INR (length l)) by (apply lt_0_INR; lia). field. lra.
Qed.

Lemma snoc_inc_nonneg (l : list F64) (x : F64) : (1 <= length l)%nat ->
  0 <= (B2R x - meanR (l ++ [x])) * (B2R x - meanR l).
Proof.
  intros Hn. rewrite (meanR_snoc l x Hn).
  assert (Hk : 0 < INR (length l)) by (apply lt_0_INR; lia).
  set (k := INR (length l)) in *. set (d := B2R x - meanR l).
  replace ((B2R x - (meanR l + d / (k + 1))) * d) with (d * d * (k / (k + 1))) by (unfold d; field; lra).
  apply Rmult_le_pos; [nra|]. apply Rlt_le, Rdiv_lt_0_compat; lra.
Qed.

Lemma meanR_single (x : F64) : meanR [x] = B2R x.
Proof. unfold meanR. cbn [map length INR]. unfold Rsum. cbn [fold_right]. field. Qed.
Lemma ssR_single (x : F64) : ssR [x] = 0.
Proof. unfold ssR, ssC. rewrite meanR_single. cbn [map]. unfold Rsum. cbn [fold_right]. ring. Qed.

Lemma meanR_in_range (lo hi : R) (l : list F64) : (1 <= length l)%nat -> in_range lo hi l -> lo <= meanR l <= hi.
Proof.
  intros Hn Hr. pose proof (Rsum_bounds B2R l lo hi Hr) as [B1 B2].
  assert (Hk : 0 < INR (length l)) by (apply lt_0_INR; lia).
  unfold meanR. set (k := INR (length l)) in *.
  assert (B1' : k * lo <= Rsum (map B2R l)) by exact B1.
  assert (B2' : Rsum (map B2R l) <= k * hi) by exact B2. clear B1 B2.
  set (s := Rsum (map B2R l)) in *.
  assert (I : 0 < / k) by (apply Rinv_0_lt_compat; exact Hk).
  assert (E : k * / k = 1) by (apply Rinv_r; lra).
  unfold Rdiv. split; (apply Rmult_le_reg_r with k; [exact Hk|]);
    rewrite ?Rmult_assoc, ?(Rmult_comm (/ k)), ?E; lra.
Qed.

(* the diagonal of the cross-product sum of Num/CovF64.v *)
Lemma cxy_diag (l : list F64) : cxy l l = ssR l.
Proof.
  unfold cxy, ssR, ssC. generalize (meanR l). intros c.
  induction l as [|v l IH]; [reflexivity|]. cbn [combine map fst snd]. rewrite !Rsum_cons, IH. reflexivity.
Qed.

(* ------------------------------------------------------------------ *)
(* 3. The induction over the lane                                      *)
(* ------------------------------------------------------------------ *)
Section Run.
Variables (N : nat) (lo hi X : R).
Hypotheses (HN : (Z.of_nat N <= 2 ^ 53)%Z) (HloX : Rabs lo <= X) (HhiX : Rabs hi <= X).
Let D : R := hi - lo.

Lemma range_abs (v : R) : lo <= v <= hi -> Rabs v <= X.
Proof.
  intros Hv. apply Rabs_le_inv in HloX. apply Rabs_le_inv in HhiX. apply Rabs_le. lra.
Qed.
Lemma range_dist (a b : R) : lo <= a <= hi -> lo <= b <= hi -> Rabs (a - b) <= D.
Proof. intros Ha Hb. unfold D. apply Rabs_le. lra. Qed.

Theorem welford_err_run (l : list F64) : (length l <= N)%nat -> (1 <= length l)%nat ->
  in_range lo hi l -> fin (wq (welford_run l)) = true ->
  Rabs (B2R (wm (welford_run l)) - meanR l) <= wBM D X (length l) /\
  Rabs (B2R (wq (welford_run l)) - ssR l) <= wBS N D X (length l) (ssR l).
Proof.
  induction l as [|x l IH] using rev_ind; intros HlN Hl1 Hr Hf; [cbn [length] in Hl1; lia|].
  rewrite app_length in HlN, Hl1 |- *. cbn [length] in HlN, Hl1 |- *.
  apply Forall_app in Hr. destruct Hr as [Hr Hx]. inversion Hx as [|? ? Hx1 _]; subst.
  assert (HX : 0 <= X) by (pose proof (Rabs_pos lo); lra).
  assert (HD : 0 <= D) by (unfold D; lra).
  assert (Hn53 : (Z.of_nat (length l + 1) <= 2 ^ 53)%Z) by lia.
  destruct (welford_prefix_finite l x Hn53 Hf) as (Fq & Fm & Fx & Fm').
  destruct l as [|y l0].
  { (* the first observation: exact *)
    cbn [app length Nat.add]. destruct (welford_first x Hf) as [E1 E2].
    rewrite E1, E2, meanR_single, ssR_single.
    replace (B2R x - B2R x) with 0 by ring. replace (0 - 0) with 0 by ring. rewrite Rabs_R0.
    split; [apply wBM_nonneg; assumption | apply wBS_nonneg; try assumption; lra]. }
  set (l := y :: l0) in *.
  assert (Hk1 : (1 <= length l)%nat) by (unfold l; cbn [length]; lia).
  destruct (IH ltac:(lia) Hk1 Hr Fq) as [IHm IHs]. clear IH.
  (* structural facts on both states *)
  pose proof (welford_mean_in_range lo hi l Hk1 ltac:(lia) Hr Fq) as Rm.
  assert (Hr' : in_range lo hi (l ++ [x])) by (apply Forall_app; split; [exact Hr | constructor; [exact Hx1 | constructor]]).
  assert (Hk1' : (1 <= length (l ++ [x]))%nat) by (rewrite app_length; cbn [length]; lia).
  assert (Hn53' : (Z.of_nat (length (l ++ [x])) <= 2 ^ 53)%Z) by (rewrite app_length; cbn [length]; lia).
  pose proof (welford_mean_in_range lo hi (l ++ [x]) Hk1' Hn53' Hr' Hf) as Rm'.
  pose proof (meanR_in_range lo hi l Hk1 Hr) as RM.
  pose proof (meanR_in_range lo hi (l ++ [x]) Hk1' Hr') as RM'.
  (* the factor model of the step *)
  rewrite welford_run_snoc in *.
  pose proof (welford_run_count l) as Ec.
  destruct (welford_run l) as [[i m] s] eqn:Est. unfold wi in Ec. cbn [fst] in Ec. subst i.
  unfold wm, wq in IHm, IHs, Rm, Fq, Fm. cbn [fst snd] in IHm, IHs, Rm, Fq, Fm.
  pose proof (welford_step_wfstep (length l) m s x Hn53 Hf) as FS. cbv zeta in FS.
  set (st' := welford_step (length l, m, s) x) in *.
  destruct FS as (f2 & f3 & f5 & f6 & f8 & h2 & h8 & (R2 & R3 & R5 & R6 & R8) & (H2 & H8) & Emh' & Esh').
  set (k := INR (length l)) in *.
  assert (Hk : 0 < k) by (unfold k; apply lt_0_INR; lia).
  assert (Ecnt : Rcount (length l) = k + 1) by (unfold Rcount, k; rewrite plus_INR; reflexivity).
  rewrite Ecnt in Emh'.
  set (M := meanR l) in *. set (M' := meanR (l ++ [x])) in *.
  assert (EM' : M' = M + (B2R x - M) / (k + 1)) by (unfold M', M, k; apply meanR_snoc; exact Hk1).
  (* the mean *)
  assert (Bm' : Rabs (B2R (wm st') - M') <= wBM D X (S (length l))).
  { pose proof (wmean_step k M (B2R x) (B2R m) (B2R (wm st')) f2 f3 f5 h2 (wBM D X (length l)) D X
                  (Rlt_le _ _ Hk) R2 R3 R5 H2 Emh' (range_dist _ _ Hx1 Rm) IHm) as MS.
    rewrite <- EM' in MS. specialize (MS (range_abs _ RM')).
    pose proof (wBM_step D X HD HX (length l)) as ST. fold k in ST.
    apply Rmult_le_reg_l with (k + 1); [lra|]. lra. }
  replace (length l + 1)%nat with (S (length l)) by lia.
  split; [exact Bm'|].
  (* the sum of squares *)
  assert (Hb : 0 <= (B2R x - M') * (B2R x - M)) by (apply snoc_inc_nonneg; exact Hk1).
  pose proof (wssq_step (ssR l) (B2R s) (B2R (wq st')) (B2R x) (B2R m) (B2R (wm st')) M M' f3 f6 f8 h8
                (wBM D X (length l)) (wBM D X (S (length l))) (wBS N D X (length l) (ssR l)) D
                R3 R6 R8 H8 Esh' (range_dist _ _ Hx1 Rm') (range_dist _ _ Hx1 RM) IHm Bm' IHs
                (ssR_nonneg l) Hb) as SS.
  rewrite (ssR_snoc l x Hk1). fold M M'.
  eapply Rle_trans; [exact SS|].
  apply wBS_step; try assumption; [lia | apply ssR_nonneg].
Qed.
End Run.

(* ------------------------------------------------------------------ *)
(* 4. Headline theorems: mean and sum of squares                       *)
(* ------------------------------------------------------------------ *)
Theorem welford_mean_error (xs : list F64) (lo hi X : R) :
  (1 <= length xs)%nat -> (Z.of_nat (length xs) <= 2 ^ 53)%Z ->
  in_range lo hi xs -> Rabs lo <= X -> Rabs hi <= X ->
  fin (wq (welford_run xs)) = true ->
  Rabs (B2R (wm (welford_run xs)) - meanR xs) <= wBM (hi - lo) X (length xs).
Proof.
  intros H1 Hn Hr HloX HhiX Hf.
  exact (proj1 (welford_err_run (length xs) lo hi X Hn HloX HhiX xs (le_n _) H1 Hr Hf)).
Qed.

Theorem welford_ssq_error (xs : list F64) (lo hi X : R) :
  (1 <= length xs)%nat -> (Z.of_nat (length xs) <= 2 ^ 53)%Z ->
  in_range lo hi xs -> Rabs lo <= X -> Rabs hi <= X ->
  fin (wq (welford_run xs)) = true ->
  Rabs (B2R (wq (welford_run xs)) - ssR xs) <= wBS (length xs) (hi - lo) X (length xs) (ssR xs).
Proof.
  intros H1 Hn Hr HloX HhiX Hf.
  exact (proj2 (welford_err_run (length xs) lo hi X Hn HloX HhiX xs (le_n _) H1 Hr Hf)).
Qed.

(* n u <= 1/64 implies n <= 2^53 *)
Lemma small_n53 (n : nat) : INR n * u64 <= / 64 -> (Z.of_nat n <= 2 ^ 53)%Z.
Proof.
  intros H. apply le_IZR. rewrite <- INR_IZR_INZ.
  change (IZR (2 ^ 53)) with (bpow radix2 53).
  assert (E : u64 * bpow radix2 53 = 1) by (unfold u64; rewrite <- bpow_plus; reflexivity).
  pose proof (bpow_gt_0 radix2 53) as P. pose proof (pos_INR n). nra.
Qed.

Theorem welford_mean_error_poly (xs : list F64) (lo hi X : R) :
  (1 <= length xs)%nat -> INR (length xs) * u64 <= / 64 ->
  in_range lo hi xs -> Rabs lo <= X -> Rabs hi <= X ->
  fin (wq (welford_run xs)) = true ->
  Rabs (B2R (wm (welford_run xs)) - meanR xs)
    <= 41 / 20 * u64 * (hi - lo) + 61 / 120 * (INR (length xs) + 1) * (u64 * X + eta64).
Proof.
  intros H1 Hs Hr HloX HhiX Hf.
  eapply Rle_trans; [apply (welford_mean_error xs lo hi X); try assumption; apply small_n53; exact Hs|].
  assert (Hlh : lo <= hi).
  { destruct xs as [|x xs]; [cbn [length] in H1; lia|]. inversion Hr as [|? ? Hx _]; subst. lra. }
  apply wBM_poly; [exact Hs | lra | pose proof (Rabs_pos lo); lra].
Qed.

Theorem welford_ssq_error_poly (xs : list F64) (lo hi X : R) :
  (1 <= length xs)%nat -> INR (length xs) * u64 <= / 64 ->
  in_range lo hi xs -> Rabs lo <= X -> Rabs hi <= X ->
  fin (wq (welford_run xs)) = true ->
  Rabs (B2R (wq (welford_run xs)) - ssR xs) <= wSp (length xs) (hi - lo) X (ssR xs).
Proof.
  intros H1 Hs Hr HloX HhiX Hf.
  eapply Rle_trans; [apply (welford_ssq_error xs lo hi X); try assumption; apply small_n53; exact Hs|].
  assert (Hlh : lo <= hi).
  { destruct xs as [|x xs]; [cbn [length] in H1; lia|]. inversion Hr as [|? ? Hx _]; subst. lra. }
  apply wBS_poly; [exact Hs | lra | pose proof (Rabs_pos lo); lra | apply ssR_nonneg].
Qed.

(* ------------------------------------------------------------------ *)
(* 5. The returned variance and standard deviation                     *)
(* ------------------------------------------------------------------ *)
(* for ANY bound ES on the error of the sum of squares *)
Theorem welford_var_error_gen (xs : list F64) (ddof : F64) (ES : R) :
  let n := length xs in
  (Z.of_nat n <= 2 ^ 53)%Z ->
  Rabs (B2R (wq (welford_run xs)) - ssR xs) <= ES ->
  fin ddof = true -> INR n - B2R ddof <> 0 ->
  fin (welford_var xs ddof) = true ->
  Rabs (B2R (welford_var xs ddof) - ssR xs / (INR n - B2R ddof))
    <= (ES * (1 + g64 2) + g64 2 * ssR xs) / Rabs (INR n - B2R ddof) + eta64.
Proof.
  intros n Hn HES Fd HN Hf. unfold welford_var in *. fold n in Hf |- *.
  destruct (divisor_model n ddof Hn Fd) as (d & Hd & ED & Pd).
  assert (ND : B2R (fsub (f64_of_Z (Z.of_nat n)) ddof) <> 0).
  { rewrite ED. apply Rmult_integral_contrapositive_currified; [exact HN | lra]. }
  destruct (fdiv_value _ _ ND Hf) as [Ev Fv]. rewrite Ev, ED.
  destruct (rnd_model (B2R (wq (welford_run xs)) / ((INR n - B2R ddof) * (1 + d)))) as (e & e' & He & He' & E).
  rewrite E.
  assert (HA : Rabs (ssR xs) <= ssR xs) by (rewrite Rabs_pos_eq; [lra | apply ssR_nonneg]).
  exact (div_step _ _ _ d e e' ES (ssR xs) HN Hd He He' HES HA).
Qed.

(* rounding the square root of an approximation s of S > 0:  relative form, no sqrt of the error *)
Lemma sqrt_round_error_rel (s S E : R) : fmt s -> 0 <= s -> 0 < S -> Rabs (s - S) <= E ->
  Rabs (rnd (sqrt s) - sqrt S) <= E / sqrt S * (1 + u64) + u64 * sqrt S.
Proof.
  intros Fs Hs HS HE.
  pose proof (sqrt_pert_rel s S Hs HS) as P.
  pose proof (sqrt_lt_R0 S HS) as Hr.
  assert (P' : Rabs (sqrt s - sqrt S) <= E / sqrt S).
  { eapply Rle_trans; [exact P|]. unfold Rdiv. apply Rmult_le_compat_r; [|exact HE].
    apply Rlt_le, Rinv_0_lt_compat. exact Hr. }
  destruct (rnd_sqrt_rel s Fs) as (d & Hd & Ed). rewrite Ed.
  pose proof u64_pos as Hu.
  replace (sqrt s * (1 + d) - sqrt S) with ((sqrt s - sqrt S) * (1 + d) + sqrt S * d) by ring.
  eapply Rle_trans; [apply Rabs_triang|]. rewrite !Rabs_mult, (Rabs_pos_eq (sqrt S)) by lra.
  assert (B2 : Rabs (1 + d) <= 1 + u64).
  { eapply Rle_trans; [apply Rabs_triang|]. rewrite Rabs_R1. lra. }
  assert (E0 : 0 <= E / sqrt S) by (pose proof (Rabs_pos (sqrt s - sqrt S)); lra).
  assert (P1 : Rabs (sqrt s - sqrt S) * Rabs (1 + d) <= E / sqrt S * (1 + u64)).
  { apply Rmult_le_compat; try apply Rabs_pos; assumption. }
  assert (P2 : sqrt S * Rabs d <= sqrt S * u64) by (apply Rmult_le_compat_l; lra).
  lra.
Qed.

(* the standard deviation from ANY bound EV on the error of the variance, exact variance V > 0 *)
Theorem welford_std_error_gen (xs : list F64) (ddof : F64) (V EV : R) :
  (Z.of_nat (length xs) <= 2 ^ 53)%Z -> fin ddof = true -> 0 < INR (length xs) - B2R ddof ->
  fin (welford_var xs ddof) = true ->
  0 < V -> Rabs (B2R (welford_var xs ddof) - V) <= EV ->
  Rabs (B2R (welford_std xs ddof) - sqrt V) <= EV / sqrt V * (1 + u64) + u64 * sqrt V.
Proof.
  intros Hn Fd HD Hf HV HEV. unfold welford_std. rewrite fsqrt_value.
  apply sqrt_round_error_rel; [apply fmt_B2R | apply welford_var_nonneg; assumption | exact HV | exact HEV].
Qed.

(* the explicit bounds with the polynomial form of the error of the sum of squares;
   Dn = n - ddof *)
Definition wVarB (n : nat) (D X Sq Dn : R) : R :=
  (wSp n D X Sq * (1 + g64 2) + g64 2 * Sq) / Rabs Dn + eta64.
Definition wStdB (n : nat) (D X Sq Dn : R) : R :=
  wVarB n D X Sq Dn / sqrt (Sq / Dn) * (1 + u64) + u64 * sqrt (Sq / Dn).

Theorem welford_var_error (xs : list F64) (ddof : F64) (lo hi X : R) :
  let n := length xs in
  (1 <= n)%nat -> INR n * u64 <= / 64 ->
  in_range lo hi xs -> Rabs lo <= X -> Rabs hi <= X ->
  fin ddof = true -> INR n - B2R ddof <> 0 ->
  fin (welford_var xs ddof) = true ->
  Rabs (B2R (welford_var xs ddof) - ssR xs / (INR n - B2R ddof))
    <= wVarB n (hi - lo) X (ssR xs) (INR n - B2R ddof).
Proof.
  intros n H1 Hs Hr HloX HhiX Fd HN Hf.
  pose proof (small_n53 n Hs) as Hn.
  assert (Fq : fin (wq (welford_run xs)) = true).
  { unfold welford_var in Hf. fold n in Hf.
    destruct (divisor_model n ddof Hn Fd) as (d & Hd & ED & Pd).
    assert (ND : B2R (fsub (f64_of_Z (Z.of_nat n)) ddof) <> 0).
    { rewrite ED. apply Rmult_integral_contrapositive_currified; [exact HN | lra]. }
    exact (proj2 (fdiv_value _ _ ND Hf)). }
  pose proof (welford_ssq_error_poly xs lo hi X H1 Hs Hr HloX HhiX Fq) as ES. fold n in ES.
  exact (welford_var_error_gen xs ddof _ Hn ES Fd HN Hf).
Qed.

Theorem welford_std_error (xs : list F64) (ddof : F64) (lo hi X : R) :
  let n := length xs in
  (1 <= n)%nat -> INR n * u64 <= / 64 ->
  in_range lo hi xs -> Rabs lo <= X -> Rabs hi <= X ->
  fin ddof = true -> 0 < INR n - B2R ddof -> 0 < ssR xs ->
  fin (welford_var xs ddof) = true ->
  Rabs (B2R (welford_std xs ddof) - sqrt (ssR xs / (INR n - B2R ddof)))
    <= wStdB n (hi - lo) X (ssR xs) (INR n - B2R ddof).
Proof.
  intros n H1 Hs Hr HloX HhiX Fd HD HS Hf.
  pose proof (small_n53 n Hs) as Hn.
  assert (HN : INR n - B2R ddof <> 0) by lra.
  pose proof (welford_var_error xs ddof lo hi X H1 Hs Hr HloX HhiX Fd HN Hf) as EV. cbv zeta in EV. fold n in EV.
  assert (HV : 0 < ssR xs / (INR n - B2R ddof)) by (apply Rdiv_lt_0_compat; assumption).
  exact (welford_std_error_gen xs ddof _ _ Hn Fd HD Hf HV EV).
Qed.

(* ------------------------------------------------------------------ *)
(* 6. The hypotheses are satisfiable                                   *)
(* ------------------------------------------------------------------ *)
(* a boolean range check: every observation is finite and between two binary64 numbers *)
Definition in_rangeb (flo fhi : F64) (xs : list F64) : bool :=
  forallb (fun x : F64 => fis_finite x && fle flo x && fle x fhi) xs.

Lemma in_rangeb_sound flo fhi xs : fis_finite flo = true -> fis_finite fhi = true ->
  in_rangeb flo fhi xs = true -> in_range (B2R flo) (B2R fhi) xs.
Proof.
  intros Flo Fhi H. unfold in_rangeb in H. rewrite forallb_forall in H.
  unfold in_range. apply Forall_forall. intros x Hin. specialize (H x Hin).
  apply andb_prop in H. destruct H as [H H3]. apply andb_prop in H. destruct H as [Fx H2].
  split; [apply (fle_spec flo x Flo Fx); exact H2 | apply (fle_spec x fhi Fx Fhi); exact H3].
Qed.

(* data [1; 2; 4; 7] (Num/WelfordF64.v wex): lo = 1, hi = 7 = X, D = 6 *)
Lemma wex_range : in_range 1 7 wex.
Proof.
  destruct (f64_of_Z_exact 1 ltac:(lia)) as [F1 E1]. destruct (f64_of_Z_exact 7 ltac:(lia)) as [F7 E7].
  replace 1 with (B2R (f64_of_Z 1)) by (rewrite E1; reflexivity).
  replace 7 with (B2R (f64_of_Z 7)) by (rewrite E7; reflexivity).
  apply in_rangeb_sound; [exact F1 | exact F7 | vm_compute; reflexivity].
Qed.

Lemma wex_small : INR (length wex) * u64 <= / 64.
Proof.
  change (length wex) with 4%nat. replace (INR 4) with 4 by (rewrite INR_IZR_INZ; reflexivity).
  pose proof u64_tiny'. lra.
Qed.

Lemma wex_ssR : ssR wex = 21.
Proof.
  assert (E : forall z, (0 <= z <= 2 ^ 53)%Z -> B2R (f64_of_Z z) = IZR z) by (intros z Hz; apply f64_of_Z_exact; exact Hz).
  unfold ssR, ssC, meanR, wex. cbn [map length]. unfold Rsum. cbn [fold_right].
  rewrite !E by lia. replace (INR 4) with 4 by (rewrite INR_IZR_INZ; reflexivity). field.
Qed.

Example welford_error_example :
  Rabs (B2R (wm (welford_run wex)) - meanR wex) <= 41 / 20 * u64 * 6 + 61 / 120 * 5 * (u64 * 7 + eta64) /\
  Rabs (B2R (wq (welford_run wex)) - 21) <= wSp 4 6 7 21 /\
  Rabs (B2R (welford_var wex fzero) - 21 / 4) <= wVarB 4 6 7 21 4 /\
  Rabs (B2R (welford_std wex fzero) - sqrt (21 / 4)) <= wStdB 4 6 7 21 4.
Proof.
  assert (Fq : fin (wq (welford_run wex)) = true) by (vm_compute; reflexivity).
  assert (Fv : fin (welford_var wex fzero) = true) by (vm_compute; reflexivity).
  assert (H1 : (1 <= length wex)%nat) by (cbn [wex length]; lia).
  assert (A1 : Rabs 1 <= 7) by (rewrite Rabs_pos_eq; lra).
  assert (A7 : Rabs 7 <= 7) by (rewrite Rabs_pos_eq; lra).
  assert (E4 : INR (length wex) = 4).
  { change (length wex) with 4%nat. rewrite INR_IZR_INZ. reflexivity. }
  pose proof (welford_mean_error_poly wex 1 7 7 H1 wex_small wex_range A1 A7 Fq) as T1.
  pose proof (welford_ssq_error_poly wex 1 7 7 H1 wex_small wex_range A1 A7 Fq) as T2.
  pose proof (welford_var_error wex fzero 1 7 7 H1 wex_small wex_range A1 A7 eq_refl) as T3.
  pose proof (welford_std_error wex fzero 1 7 7 H1 wex_small wex_range A1 A7 eq_refl) as T4.
  cbv zeta in T3, T4. rewrite B2R_fzero, E4, wex_ssR in *.
  change (length wex) with 4%nat in *.
  replace (7 - 1) with 6 in * by ring. replace (4 - 0) with 4 in * by ring. replace (4 + 1) with 5 in T1 by ring.
  split; [exact T1|]. split; [exact T2|].
  split; [apply T3; [lra | exact Fv] | apply T4; [lra | lra | exact Fv]].
Qed.

Print Assumptions welford_step_wfstep.
Print Assumptions welford_err_run.
Print Assumptions welford_mean_error.
Print Assumptions welford_ssq_error.
Print Assumptions welford_ssq_error_poly.
Print Assumptions welford_var_error.
Print Assumptions welford_std_error.
Print Assumptions welford_error_example.
