From Flocq Require Import Core BinarySingleNaN Plus_error Relative.
Require Import Reals Lra Lia Psatz List ZArith.
From NS Require Import Num.SumError.
Open Scope R_scope.

Section B.
Variables (prec emax : Z).
Context (Hprec : Prec_gt_0 prec) (Hmax : Prec_lt_emax prec emax).
Notation F := (binary_float prec emax).
Notation emin := (3 - emax - prec)%Z.

Inductive ftree := FLeaf (x : F) | FNode (l r : ftree).
Fixpoint feval t : F := match t with FLeaf x => x | FNode l r => Bplus mode_NE (feval l) (feval r) end.
Fixpoint toR t : tree := match t with FLeaf x => Leaf (B2R x) | FNode l r => Node (toR l) (toR r) end.

Lemma Bplus_finite_inv (x y : F) : is_finite (Bplus mode_NE x y) = true -> is_finite x = true /\ is_finite y = true.
Proof.
  destruct x as [sx|sx| |sx mx ex Hx], y as [sy|sy| |sy my ey Hy]; simpl; auto; try discriminate;
  try (destruct (Bool.eqb sx sy); simpl; auto; discriminate).
Qed.

Lemma fexp_eq : forall e, SpecFloat.fexp prec emax e = FLT_exp emin prec e.
Proof. intros e. unfold SpecFloat.fexp, FLT_exp, SpecFloat.emin. reflexivity. Qed.

Theorem feval_correct t : is_finite (feval t) = true ->
  B2R (feval t) = eval emin prec (toR t) /\ leaves_fmt emin prec (toR t).
Proof.
  induction t as [x | l IHl r IHr]; simpl; intros Hf.
  - split; auto. apply generic_format_B2R.
  - destruct (Bplus_finite_inv _ _ Hf) as [Fl Fr].
    destruct (IHl Fl) as [El Ll]. destruct (IHr Fr) as [Er Lr].
    split; [|split; auto].
    pose proof (Bplus_correct prec emax _ _ mode_NE (feval l) (feval r) Fl Fr) as C.
    destruct (Rlt_bool _ _) eqn:B in C.
    + destruct C as [C _]. rewrite C. unfold rnd. rewrite El, Er. reflexivity.
    + (* overflow: result is infinite, contradiction *)
      destruct C as [C _]. exfalso.
      assert (is_finite_SF (B2SF (Bplus mode_NE (feval l) (feval r))) = true) by (rewrite is_finite_SF_B2SF; exact Hf).
      rewrite C in H. unfold binary_overflow in H. simpl in H. discriminate.
Qed.
End B.
