(* Support for the libm oracles (ln, exp, log10) of the binary64 instance: a table entry is found
   only at the bit pattern of its argument, so an accuracy premise on a concrete table is a finite
   conjunction (checked entry by entry with interval arithmetic); elementary bounds on ln(1 + e)
   and exp(d) - 1 used to propagate relative errors through ln / exp. *)
From Flocq Require Import Core BinarySingleNaN.
From Flocq Require Binary Bits.
Require Import Reals Lra Lia ZArith Psatz Bool List.
From NS Require Import Num.F64 Num.Ops Num.F64Inst Num.SumF64 Quantile.InterpF64 Num.MeansF64.
Import ListNotations.
Open Scope R_scope.

(* ------------------------------------------------------------------ *)
(* 1. Bit patterns                                                     *)
(* ------------------------------------------------------------------ *)
Lemma f64_of_bits_of_f64 (x : F64) : fis_nan x = false -> f64_of_bits (bits_of_f64 x) = x.
Proof.
  intros Hn. unfold f64_of_bits, bits_of_f64.
  destruct x as [s|s| |s m e H]; try discriminate Hn;
    unfold Bits.b64_of_bits, Bits.bits_of_b64; rewrite Bits.binary_float_of_bits_of_binary_float; reflexivity.
Qed.

Lemma tab_lookup_some tab k v : tab_lookup tab k = Some v -> In (k, v) tab.
Proof.
  induction tab as [|[a b] t IH]; cbn [tab_lookup]; intros E; [discriminate E|].
  destruct (Z.eqb a k) eqn:Eq.
  - apply Z.eqb_eq in Eq. subst a. inversion E; subst. left. reflexivity.
  - right. apply IH. exact E.
Qed.

(* a property of all entries of a table holds of every successful lookup *)
Lemma tab_fn_entries (tab : list (Z * Z)) (P : F64 -> F64 -> Prop) :
  Forall (fun kv => P (f64_of_bits (fst kv)) (f64_of_bits (snd kv))) tab ->
  forall x : F64, fis_nan x = false -> tab_lookup tab (bits_of_f64 x) <> None -> P x (tab_fn tab x).
Proof.
  intros HF x Hn HL. unfold tab_fn.
  destruct (tab_lookup tab (bits_of_f64 x)) as [v|] eqn:E; [|elim HL; reflexivity].
  apply tab_lookup_some in E. rewrite Forall_forall in HF. specialize (HF _ E). cbn [fst snd] in HF.
  rewrite (f64_of_bits_of_f64 x Hn) in HF. exact HF.
Qed.

Lemma fin_not_nan (x : F64) : fin x = true -> fis_nan x = false.
Proof. destruct x; intros H; try reflexivity; discriminate H. Qed.

(* the real value of the float with a given bit pattern, as  m * 2^e *)
Tactic Notation "b2r_bits" constr(K) "as" ident(Hname) :=
  let v := eval vm_compute in (f64_of_bits K) in
  lazymatch v with
  | B754_finite ?s ?m ?e ?H =>
    assert (Hname : B2R (f64_of_bits K) = IZR (cond_Zopp s (Zpos m)) * powerRZ 2 e)
      by (replace (f64_of_bits K) with v by (vm_compute; reflexivity);
          rewrite <- (bpow_powerRZ radix2); reflexivity)
  | B754_zero ?s =>
    assert (Hname : B2R (f64_of_bits K) = 0)
      by (replace (f64_of_bits K) with v by (vm_compute; reflexivity); reflexivity)
  end.

(* ------------------------------------------------------------------ *)
(* 2. Elementary bounds                                                *)
(* ------------------------------------------------------------------ *)
Lemma ln1p_gen (e c : R) : Rabs e <= c -> c <= / 2 -> Rabs (ln (1 + e)) <= 2 * c.
Proof.
  intros He Hc. apply Rabs_le_inv in He.
  assert (P : 0 < 1 + e) by lra.
  pose proof (ln_le_minus1' (1 + e) P) as U.
  assert (Pi : 0 < / (1 + e)) by (apply Rinv_0_lt_compat; exact P).
  pose proof (ln_le_minus1' (/ (1 + e)) Pi) as L. rewrite (ln_Rinv _ P) in L.
  assert (I : / (1 + e) <= 1 + 2 * c).
  { apply Rmult_le_reg_r with (1 + e); [exact P|]. rewrite Rinv_l by lra. nra. }
  apply Rabs_le. lra.
Qed.

Lemma exp_m1_abs (d : R) : Rabs (exp d - 1) <= exp (Rabs d) - 1.
Proof.
  destruct (Rle_or_lt 0 d) as [H|H].
  - rewrite (Rabs_pos_eq d H). pose proof (exp_ineq1_le d) as Hp1. rewrite Rabs_pos_eq; lra.
  - rewrite (Rabs_left d H).
    pose proof (exp_pos d) as P. pose proof (exp_Ropp d) as E.
    assert (I : exp d * exp (- d) = 1) by (rewrite E; field; lra).
    pose proof (exp_pos (- d)) as P'.
    pose proof (exp_ineq1_le d) as L1.
    assert (L2 : exp d < 1).
    { rewrite <- exp_0. apply exp_increasing. exact H. }
    rewrite Rabs_left by lra. nra.
Qed.

Lemma exp_m1_le (d E : R) : Rabs d <= E -> Rabs (exp d - 1) <= exp E - 1.
Proof.
  intros H. eapply Rle_trans; [apply exp_m1_abs|].
  destruct (Rle_lt_or_eq_dec _ _ H) as [H1|H1]; [apply exp_increasing in H1; lra|rewrite H1; lra].
Qed.

Lemma ln10_gt_2 : 2 < ln 10.
Proof.
  rewrite <- (ln_exp 2). apply ln_increasing; [apply exp_pos|].
  replace 2 with (1 + 1) by ring. rewrite exp_plus. pose proof exp_le_3 as Hp2. pose proof (exp_pos 1) as Hp3. nra.
Qed.

Definition Rlog10 (x : R) : R := ln x / ln 10.
