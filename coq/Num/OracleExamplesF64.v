(* Concrete runs showing that the hypotheses of the PSNR bound (Num/PsnrF64.v) and of the
   geometric-mean bound (Num/GeomF64.v) are jointly satisfiable: small inputs, oracle tables
   holding the values recorded from libm at the arguments the runs need, and the accuracy
   premises on those tables PROVED entry by entry with interval arithmetic (coq-interval).
   Only this file uses the interval tactic; its computations go through Coq's primitive
   63-bit integers, so Print Assumptions of the examples below additionally lists the Uint63
   specification axioms of the standard library.  The theorems of Num/PsnrF64.v and
   Num/GeomF64.v do not depend on this file. *)
From Flocq Require Import Core BinarySingleNaN.
Require Import Reals Lra Lia ZArith Psatz Bool List Permutation.
From NS Require Import Num.F64 Num.Ops Num.F64Inst Num.Kernels Num.SumF64
  Quantile.IndexProofs Quantile.InterpF64 Num.DeviationF64 Num.MeansF64 Num.DerivedF64 Num.OracleF64
  Num.PsnrF64 Num.GeomF64.
From Interval Require Import Tactic.
Import ListNotations.
Open Scope R_scope.

(* ------------------------------------------------------------------ *)
(* The hypotheses are satisfiable: the run of Num/DerivedF64.v with maxv = 4 and the value of
   log10 recorded from libm at the one argument the run needs *)
(* ------------------------------------------------------------------ *)
Definition ex_log10_tab : list (Z * Z) := [(4616958525308211900, 4604214703118499916)%Z].
Definition ex_flog10 : F64 -> F64 := tab_fn ex_log10_tab.
Definition ex_maxv : F64 := f64_of_Z 4.
Definition ex_elog : R := bpow radix2 (-52).

Lemma ex_log10_accurate : log10_accurate ex_flog10 ex_elog.
Proof.
  intros x Fx Px FL. unfold ex_flog10 in *.
  apply (tab_fn_entries ex_log10_tab
           (fun x y => Rabs (B2R y - Rlog10 (B2R x)) <= ex_elog * Rabs (Rlog10 (B2R x))));
    [|apply fin_not_nan; exact Fx|apply fin_tab_fn_present; exact FL].
  repeat constructor. cbn [fst snd].
  b2r_bits 4616958525308211900%Z as E1. b2r_bits 4604214703118499916%Z as E2.
  rewrite E1, E2. cbn [cond_Zopp]. unfold ex_elog, Rlog10. rewrite (bpow_powerRZ radix2). cbn [radix_val radix2].
  interval with (i_prec 80).
Qed.

Example ex_psnr_value :
  bits_of_f64 (psnr_quot [] [] ex_a ex_b ex_trav ex_maxv) = 4616958525308211900%Z /\
  bits_of_f64 (psnr OX ex_flog10 ex_a ex_b ex_trav ex_maxv) = 0x401ad2190f42d05f%Z.
Proof. vm_compute. split; reflexivity. Qed.

Lemma ex_psnr_side :
  fin (psnr OX ex_flog10 ex_a ex_b ex_trav ex_maxv) = true /\
  bpow radix2 (-1021) <= B2R (fmul ex_maxv ex_maxv) /\
  bpow radix2 (-1021) <= B2R (psnr_quot [] [] ex_a ex_b ex_trav ex_maxv).
Proof.
  split; [vm_compute; reflexivity|].
  assert (L : bpow radix2 (-1021) <= 1) by (change 1 with (bpow radix2 0); apply bpow_le; lia).
  split.
  - assert (E : fmul ex_maxv ex_maxv = f64_of_Z 16) by (apply B2SF_inj; vm_compute; reflexivity).
    rewrite E. destruct (f64_of_Z_exact 16 ltac:(lia)) as [_ E16]. rewrite E16. lra.
  - assert (E : psnr_quot [] [] ex_a ex_b ex_trav ex_maxv = f64_of_bits 4616958525308211900)
      by (apply B2SF_inj; vm_compute; reflexivity).
    rewrite E. b2r_bits 4616958525308211900%Z as E1. rewrite E1. cbn [cond_Zopp]. interval with (i_prec 60).
Qed.

(* MSE = 41/12; the relative accuracy of the computed mean squared error is far below 1/2 *)
Example ex_psnr_error :
  let MSE := 41 / 4 / INR 3 in
  let dm := g64 6 + (2 + g64 4) * eta64 / MSE in
  let P := 10 * Rlog10 (B2R ex_maxv * B2R ex_maxv / MSE) in
  let D := 10 / ln 10 * (4 * u64 + 2 * dm) in
  Rabs (B2R (psnr OX ex_flog10 ex_a ex_b ex_trav ex_maxv) - P)
    <= ((1 + ex_elog) * (1 + u64) - 1) * (Rabs P + D) + D + eta64.
Proof.
  rewrite <- (proj1 ex_sums). destruct ex_psnr_side as (Hf & H2 & H3).
  apply (psnr_error [] [] ex_flog10 ex_elog (bpow_ge_0 radix2 (-52)) ex_log10_accurate
           ex_a ex_b ex_trav ex_maxv 3 eq_refl ex_traversal); try assumption; try lia.
  - rewrite (proj1 ex_sums). lra.
  - rewrite (proj1 ex_sums). cbn [Nat.add].
    assert (G6 : g64 6 <= / 4) by (apply g64_quarter; lia).
    assert (G4 : g64 4 <= / 4) by (apply g64_quarter; lia).
    assert (Het : eta64 <= / 100).
    { unfold eta64. apply Rle_trans with (bpow radix2 (-7)); [apply bpow_le; lia|]. simpl. lra. }
    pose proof eta64_pos as Hp1. pose proof (g64_nonneg 4) as Hp2.
    assert (Q : (2 + g64 4) * eta64 / (41 / 4 / INR 3) <= 3 * eta64).
    { simpl INR. replace ((2 + g64 4) * eta64 / (41 / 4 / (1 + 1 + 1))) with ((2 + g64 4) * (12 / 41) * eta64) by (field; lra).
      apply Rmult_le_compat_r; lra. }
    lra.
Qed.


(* ------------------------------------------------------------------ *)
(* 4. The hypotheses are satisfiable: geometric_mean [2; 4; 8] with the values of ln and exp
      recorded from libm at the arguments the run needs                *)
(* ------------------------------------------------------------------ *)
Definition ex_lt : list (Z * Z) :=
  [(4611686018427387904, 4604418534313441775); (4616189618054758400, 4608922133940812271);
   (4620693217682128896, 4611864904876141427)]%Z.
Definition ex_et : list (Z * Z) := [(4608922133940812271, 4616189618054758400)%Z].
Definition ex_data : list F64 := [f64_of_Z 2; f64_of_Z 4; f64_of_Z 8].
Definition ex_pl : plan := PMem [0; 1; 2]%nat.
Definition ex_eps : R := bpow radix2 (-52).

Lemma ex_ln_accurate : ln_tab_accurate ex_lt ex_et ex_eps.
Proof.
  intros x Fx Px HL FL. change (o_ln (f64_ops ex_lt ex_et) x) with (tab_fn ex_lt x).
  apply (tab_fn_entries ex_lt
           (fun x y => Rabs (B2R y - ln (B2R x)) <= ex_eps * Rabs (ln (B2R x))));
    [|apply fin_not_nan; exact Fx|exact HL].
  unfold ex_eps. repeat constructor; cbn [fst snd].
  - b2r_bits 4611686018427387904%Z as E1. b2r_bits 4604418534313441775%Z as E2.
    rewrite E1, E2. cbn [cond_Zopp]. rewrite (bpow_powerRZ radix2). cbn [radix_val radix2].
    interval with (i_prec 80).
  - b2r_bits 4616189618054758400%Z as E1. b2r_bits 4608922133940812271%Z as E2.
    rewrite E1, E2. cbn [cond_Zopp]. rewrite (bpow_powerRZ radix2). cbn [radix_val radix2].
    interval with (i_prec 80).
  - b2r_bits 4620693217682128896%Z as E1. b2r_bits 4611864904876141427%Z as E2.
    rewrite E1, E2. cbn [cond_Zopp]. rewrite (bpow_powerRZ radix2). cbn [radix_val radix2].
    interval with (i_prec 80).
Qed.

Lemma ex_exp_accurate : exp_table_accurate ex_lt ex_et ex_eps.
Proof.
  intros x Fx HL FL. change (o_exp (f64_ops ex_lt ex_et) x) with (tab_fn ex_et x).
  apply (tab_fn_entries ex_et
           (fun x y => Rabs (B2R y - exp (B2R x)) <= ex_eps * exp (B2R x)));
    [|apply fin_not_nan; exact Fx|exact HL].
  unfold ex_eps. repeat constructor; cbn [fst snd].
  b2r_bits 4608922133940812271%Z as E1. b2r_bits 4616189618054758400%Z as E2.
  rewrite E1, E2. cbn [cond_Zopp]. rewrite (bpow_powerRZ radix2). cbn [radix_val radix2].
  interval with (i_prec 80).
Qed.

Example ex_gm_value :
  bits_of_f64 (log_mean ex_lt ex_et ex_pl ex_data) = 4608922133940812271%Z /\
  bits_of_f64 (geometric_mean (f64_ops ex_lt ex_et) ex_pl ex_data) = 0x4010000000000000%Z.
Proof. vm_compute. split; reflexivity. Qed.

Lemma ex_gm_side :
  plan_ok ex_pl 3 /\ Forall (fun x => 0 < B2R x) ex_data /\
  fin (log_mean ex_lt ex_et ex_pl ex_data) = true /\
  fin (geometric_mean (f64_ops ex_lt ex_et) ex_pl ex_data) = true.
Proof.
  split; [apply Permutation_refl|]. split; [|split; vm_compute; reflexivity].
  destruct (f64_of_Z_exact 2 ltac:(lia)) as [_ E2]. destruct (f64_of_Z_exact 4 ltac:(lia)) as [_ E4].
  destruct (f64_of_Z_exact 8 ltac:(lia)) as [_ E8].
  unfold ex_data. repeat constructor; rewrite ?E2, ?E4, ?E8; lra.
Qed.

Example ex_gm_error :
  Rabs (B2R (geometric_mean (f64_ops ex_lt ex_et) ex_pl ex_data) - GM (map B2R ex_data))
    <= GM (map B2R ex_data) * (exp (log_stage_bound ex_eps ex_data) * (1 + ex_eps) - 1).
Proof.
  destruct ex_gm_side as (HP & Hpos & Fm & Fg).
  apply (geometric_mean_error ex_lt ex_et ex_eps ex_eps (bpow_ge_0 radix2 (-52)) ex_ln_accurate ex_exp_accurate
           ex_pl ex_data 3 HP eq_refl); try assumption; lia.
Qed.


Print Assumptions ex_psnr_error.
Print Assumptions ex_gm_error.
