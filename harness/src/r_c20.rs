//! One bundle of statistics evaluated on the same logical arrays under every ownership kind and
//! static / dynamic dimensionality.
use crate::common::*;
use ndarray::{Array1, ArrayBase, ArrayD, Axis, CowArray, Data, Dimension, Ix1, Ix2, Ix3, Ix4, RemoveAxis};
use ndarray_stats::histogram::Edges;
use ndarray_stats::interpolate::{Higher, Linear};
use ndarray_stats::{DeviationExt, EntropyExt, MaybeNanExt, QuantileExt, SummaryStatisticsExt};
use noisy_float::types::n64;

fn ix<D: Dimension>(p: D::Pattern) -> String {
    let d = p.into_dimension();
    show_usizes(d.slice())
}
use ndarray::IntoDimension;

fn bundle_f64<S, D>(a: &ArrayBase<S, D>, b: &ArrayBase<S, D>) -> String
where
    S: Data<Elem = f64>,
    D: Dimension + RemoveAxis,
{
    let mut out = Vec::new();
    out.push(format!("mean {:?}", SummaryStatisticsExt::mean(a).map(|x| x.to_bits()).ok()));
    out.push(format!("wsum {:?}", a.weighted_sum(b).map(|x| x.to_bits()).ok()));
    out.push(format!("wmean {:?}", a.weighted_mean(b).map(|x| x.to_bits()).ok()));
    out.push(format!("wvar {:?}", a.weighted_var(b, 0.5).map(|x| x.to_bits()).ok()));
    out.push(format!("cm3 {:?}", a.central_moment(3).map(|x| x.to_bits()).ok()));
    out.push(format!("ent {:?}", b.entropy().map(|x| x.to_bits()).ok()));
    out.push(format!("kl {:?}", b.kl_divergence(b).map(|x| x.to_bits()).ok()));
    out.push(format!("cross {:?}", b.cross_entropy(&a.mapv(|x| x.abs() + 0.5)).map(|x| x.to_bits()).ok()));
    out.push(format!("klab {:?}", b.kl_divergence(&a.mapv(|x| x.abs() + 0.5)).map(|x| x.to_bits()).ok()));
    out.push(format!("l1 {:?}", a.l1_dist(b).map(|x| x.to_bits()).ok()));
    out.push(format!("sql2 {:?}", a.sq_l2_dist(b).map(|x| x.to_bits()).ok()));
    out.push(format!("linf {:?}", a.linf_dist(b).map(|x| x.to_bits()).ok()));
    out.push(format!("cnt {:?}", a.count_eq(b).ok()));
    out.push(format!("min {:?}", a.min().map(|x| x.to_bits()).ok()));
    out.push(format!("max {:?}", a.max().map(|x| x.to_bits()).ok()));
    out.push(format!("argmin {:?}", a.argmin().map(|p| ix::<D>(p)).ok()));
    out.push(format!("argmax {:?}", a.argmax().map(|p| ix::<D>(p)).ok()));
    out.push(format!("minsk {}", a.min_skipnan().to_bits()));
    out.push(format!("argminsk {:?}", a.argmin_skipnan().map(|p| ix::<D>(p)).ok()));
    out.join(";")
}

fn bundle_i64<S, D>(a: &ArrayBase<S, D>, b: &ArrayBase<S, D>) -> String
where
    S: Data<Elem = i64>,
    D: Dimension + RemoveAxis,
{
    let mut out = Vec::new();
    out.push(format!("mean {:?}", SummaryStatisticsExt::mean(a).ok()));
    out.push(format!("wsum {:?}", a.weighted_sum(b).ok()));
    out.push(format!("sql2 {:?}", a.sq_l2_dist(b).ok()));
    out.push(format!("l1 {:?}", a.l1_dist(b).ok()));
    out.push(format!("linf {:?}", a.linf_dist(b).ok()));
    out.push(format!("cnt {:?}", a.count_neq(b).ok()));
    out.push(format!("l2 {:?}", a.l2_dist(b).map(|x| x.to_bits()).ok()));
    out.push(format!("min {:?}", a.min().ok()));
    out.push(format!("max {:?}", a.max().ok()));
    out.push(format!("argmin {:?}", a.argmin().map(|p| ix::<D>(p)).ok()));
    out.push(format!("argmax {:?}", a.argmax().map(|p| ix::<D>(p)).ok()));
    for axis in 0..a.ndim() {
        let mut c = a.to_owned();
        let q = c.quantile_axis_mut(Axis(axis), n64(0.4), &Higher).ok().map(|r| r.iter().cloned().collect::<Vec<i64>>());
        out.push(format!("qhi{} {:?}", axis, q));
        let mut c = a.to_owned();
        let q = c.quantile_axis_mut(Axis(axis), n64(0.7), &Linear).ok().map(|r| r.iter().cloned().collect::<Vec<i64>>());
        out.push(format!("qlin{} {:?}", axis, q));
    }
    out.join(";")
}

/// the first 1-D lane (index 0 on every leading axis) of an owned array, still owning the allocation
fn first_lane(mut o: ArrayD<i64>) -> Array1<i64> {
    while o.ndim() > 1 {
        o = o.index_axis_move(Axis(0), 0);
    }
    o.into_dimensionality::<Ix1>().unwrap()
}

fn show_edges(e: &Edges<i64>) -> String {
    format!("{:?}", e.as_array_view().iter().cloned().collect::<Vec<i64>>()).replace(' ', "")
}

macro_rules! variants {
    ($bundle:ident, $a:expr, $b:expr, $nd:expr) => {{
        let mut res: Vec<String> = Vec::new();
        let (va, vb) = ($a.view(), $b.view());
        res.push(format!("view|{}", $bundle(&va, &vb)));
        res.push(format!("owned|{}", $bundle(&va.to_owned(), &vb.to_owned())));
        res.push(format!("shared|{}", $bundle(&va.to_shared(), &vb.to_shared())));
        res.push(format!("cow|{}", $bundle(&CowArray::from(va.clone()), &CowArray::from(vb.clone()))));
        {
            let (ma, mb) = ($a.arr.clone(), $b.arr.clone());
            let mut pa = Parent { arr: ma, layout: $a.layout.clone() };
            let mut pb = Parent { arr: mb, layout: $b.layout.clone() };
            let (x, y) = (pa.view_mut(), pb.view_mut());
            res.push(format!("viewmut|{}", $bundle(&x, &y)));
        }
        match $nd {
            1 => res.push(format!("static|{}", $bundle(&va.clone().into_dimensionality::<Ix1>().unwrap(), &vb.clone().into_dimensionality::<Ix1>().unwrap()))),
            2 => res.push(format!("static|{}", $bundle(&va.clone().into_dimensionality::<Ix2>().unwrap(), &vb.clone().into_dimensionality::<Ix2>().unwrap()))),
            3 => res.push(format!("static|{}", $bundle(&va.clone().into_dimensionality::<Ix3>().unwrap(), &vb.clone().into_dimensionality::<Ix3>().unwrap()))),
            4 => res.push(format!("static|{}", $bundle(&va.clone().into_dimensionality::<Ix4>().unwrap(), &vb.clone().into_dimensionality::<Ix4>().unwrap()))),
            _ => {}
        }
        res
    }};
}

pub fn run(_routine: &str, t: &mut Toks) -> String {
    let et = t.next();
    t.bar();
    match et {
        "f64" => {
            let a: Parent<f64> = Parent::parse(t);
            t.bar();
            let b: Parent<f64> = match Second::<f64>::parse(t) {
                Second::Own(p) => p,
                Second::Alias(l) => {
                    // both operands are views into ONE allocation (they share elements, possibly the first
                    // and the last one, with different strides)
                    let vb = view_of(&a.arr, &l);
                    let va = a.view();
                    let mut r = vec![format!("alias|{}", bundle_f64(&va, &vb))];
                    if a.layout.pshape.len() == 2 {
                        r.push(format!(
                            "aliasstatic|{}",
                            bundle_f64(&va.clone().into_dimensionality::<Ix2>().unwrap(), &vb.clone().into_dimensionality::<Ix2>().unwrap())
                        ));
                    }
                    return format!("OK {} # {}", r.len(), r.join(" # "));
                }
            };
            let nd = a.layout.pshape.len();
            let mut r = variants!(bundle_f64, a, b, nd);
            r.push(format!("narrow|{}", bundle_f64(&a.owned_sliced(), &b.owned_sliced())));
            format!("OK {} # {}", r.len(), r.join(" # "))
        }
        "i64" => {
            let a: Parent<i64> = Parent::parse(t);
            t.bar();
            let b: Parent<i64> = match Second::<i64>::parse(t) {
                Second::Own(p) => p,
                Second::Alias(l) => {
                    let vb = view_of(&a.arr, &l);
                    let va = a.view();
                    let mut r = vec![format!("alias|{}", bundle_i64(&va, &vb))];
                    if a.layout.pshape.len() == 2 {
                        r.push(format!(
                            "aliasstatic|{}",
                            bundle_i64(&va.clone().into_dimensionality::<Ix2>().unwrap(), &vb.clone().into_dimensionality::<Ix2>().unwrap())
                        ));
                    }
                    return format!("OK {} # {}", r.len(), r.join(" # "));
                }
            };
            let nd = a.layout.pshape.len();
            let mut r = variants!(bundle_i64, a, b, nd);
            // an owned array narrowed inside its parent allocation (slice_move semantics), and the
            // edges built from the first lane through three routes: a Vec, a compact owned Array1,
            // the narrowed owned Array1
            let (oa, ob) = (a.owned_sliced(), b.owned_sliced());
            let lane: Vec<i64> = first_lane(oa.clone()).iter().cloned().collect();
            let e_vec = show_edges(&Edges::from(lane.clone()));
            let e_compact = show_edges(&Edges::from(Array1::from(lane)));
            let e_narrow = show_edges(&Edges::from(first_lane(oa.clone())));
            r[0].push_str(&format!(";edges {}", e_vec));
            r[1].push_str(&format!(";edges {}", e_compact));
            r.push(format!("narrow|{};edges {}", bundle_i64(&oa, &ob), e_narrow));
            format!("OK {} # {}", r.len(), r.join(" # "))
        }
        _ => panic!("unsupported element type"),
    }
}
