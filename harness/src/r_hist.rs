//! Edges / Bins / Grid / Histogram.
use crate::common::*;
use crate::guarded;
use ndarray::{s, Array1, Ix2};
use ndarray_stats::histogram::{Bins, Edges, Grid, Histogram};
use ndarray_stats::HistogramExt;

macro_rules! ord_types {
    ($et:expr, $T:ident => $body:expr) => {
        match $et {
            "i64" => { type $T = i64; $body }
            "i32" => { type $T = i32; $body }
            "u8" => { type $T = u8; $body }
            "i128" => { type $T = i128; $body }
            "n64" => { type $T = noisy_float::types::N64; $body }
            _ => panic!("unsupported element type"),
        }
    };
}

pub fn run(routine: &str, t: &mut Toks) -> String {
    let et = t.next();
    t.bar();
    ord_types!(et, T => run_t::<T>(routine, t))
}

fn parse_grid<T: Elem + Ord>(t: &mut Toks) -> Grid<T> {
    let nax = t.usize();
    let mut proj = Vec::new();
    for _ in 0..nax {
        let v: Vec<T> = t.vec();
        proj.push(Bins::new(Edges::from(v)));
    }
    Grid::from(proj)
}

fn show_opt_usizes(v: &Option<Vec<usize>>) -> String {
    match v {
        None => "N".to_string(),
        Some(v) => format!("S {}", show_usizes(v)),
    }
}

fn run_t<T: Elem + Ord>(routine: &str, t: &mut Toks) -> String {
    match routine {
        // bins <et> | data | probes | positions
        "bins" => {
            let data: Vec<T> = t.vec();
            t.bar();
            let probes: Vec<T> = t.vec();
            t.bar();
            let positions = t.vec_usize();
            // both constructors must agree
            let e2 = Edges::from(Array1::from(data.clone()));
            let edges = Edges::from(data.clone());
            // ... also when the owned array is a narrowed piece of a larger allocation (slice_move):
            // a prefix, every other element, the reversed array
            let k = data.len() / 2;
            let pre = Array1::from(data.clone()).slice_move(s![..k]);
            let stp = Array1::from(data.clone()).slice_move(s![..;2]);
            let rev = Array1::from(data.clone()).slice_move(s![..;-1]);
            let same = edges == e2
                && Edges::from(pre) == Edges::from(data[..k].to_vec())
                && Edges::from(stp) == Edges::from(data.iter().step_by(2).cloned().collect::<Vec<T>>())
                && Edges::from(rev) == edges;
            let ev: Vec<T> = edges.iter().cloned().collect();
            let via_view: Vec<T> = edges.as_array_view().iter().cloned().collect();
            let via_index: Vec<T> = (0..edges.len()).map(|i| edges[i].clone()).collect();
            let consistent = same
                && show_vec(&ev) == show_vec(&via_view)
                && show_vec(&ev) == show_vec(&via_index)
                && edges.is_empty() == (edges.len() == 0);
            let bins = Bins::new(edges.clone());
            let mut out = format!(
                "OK {} | {} {} {} {}",
                show_vec(&ev),
                edges.len(),
                bins.len(),
                bins.is_empty() as u8,
                consistent as u8
            );
            out.push_str(" |");
            for p in &probes {
                match edges.indices_of(p) {
                    None => out.push_str(" N"),
                    Some((i, j)) => out.push_str(&format!(" S {} {}", i, j)),
                }
                match bins.index_of(p) {
                    None => out.push_str(" N"),
                    Some(i) => out.push_str(&format!(" S {}", i)),
                }
                match bins.range_of(p) {
                    None => out.push_str(" N"),
                    Some(r) => out.push_str(&format!(" S {} {}", r.start.show(), r.end.show())),
                }
            }
            out.push_str(" |");
            for &i in &positions {
                match guarded(|| bins.index(i)) {
                    Some(r) => out.push_str(&format!(" S {} {}", r.start.show(), r.end.show())),
                    None => out.push_str(" P"),
                }
            }
            out
        }
        // grid <et> | nax edges... | npts (pt)... | nidx (idx)...
        "grid" => {
            let grid: Grid<T> = parse_grid(t);
            t.bar();
            let npts = t.usize();
            let pts: Vec<Vec<T>> = (0..npts).map(|_| t.vec()).collect();
            t.bar();
            let nidx = t.usize();
            let idxs: Vec<Vec<usize>> = (0..nidx).map(|_| t.vec_usize()).collect();
            let plens: Vec<usize> = grid.projections().iter().map(|b| b.len()).collect();
            let mut out = format!("OK {} | {} | {}", grid.ndim(), show_usizes(&grid.shape()), show_usizes(&plens));
            out.push_str(" |");
            for p in &pts {
                let a = Array1::from(p.clone());
                match guarded(|| grid.index_of(&a)) {
                    Some(r) => out.push_str(&format!(" {}", show_opt_usizes(&r))),
                    None => out.push_str(" P"),
                }
            }
            out.push_str(" |");
            for ix in &idxs {
                match guarded(|| grid.index(ix)) {
                    Some(r) => {
                        out.push_str(&format!(" S {}", r.len()));
                        for x in r {
                            out.push_str(&format!(" {} {}", x.start.show(), x.end.show()));
                        }
                    }
                    None => out.push_str(" P"),
                }
            }
            out
        }
        // hist <et> | grid | npts (pt)...   : counts after every single insert
        "hist" => {
            let grid: Grid<T> = parse_grid(t);
            t.bar();
            let npts = t.usize();
            let pts: Vec<Vec<T>> = (0..npts).map(|_| t.vec()).collect();
            let mut h = Histogram::new(grid);
            let c0: Vec<usize> = h.counts().iter().cloned().collect();
            let mut out = format!("OK {} | {} | {}", h.ndim(), show_usizes(h.counts().shape()), show_usizes(&c0));
            for p in &pts {
                let a = Array1::from(p.clone());
                let r = guarded(|| h.add_observation(&a));
                let tag = match r {
                    Some(Ok(())) => "A",
                    Some(Err(_)) => "R",
                    None => "P",
                };
                let c: Vec<usize> = h.counts().iter().cloned().collect();
                out.push_str(&format!(" | {} {}", tag, show_usizes(&c)));
            }
            out
        }
        // histm <et> | grid | layout | data   : matrix form
        "histm" => {
            let grid: Grid<T> = parse_grid(t);
            t.bar();
            let parent: Parent<T> = Parent::parse(t);
            let r = guarded(|| {
                let v = parent.view().into_dimensionality::<Ix2>().unwrap();
                let h = v.histogram(grid);
                let c: Vec<usize> = h.counts().iter().cloned().collect();
                (h.counts().shape().to_vec(), c)
            });
            match r {
                Some((sh, c)) => format!("OK {} | {}", show_usizes(&sh), show_usizes(&c)),
                None => "PANIC".to_string(),
            }
        }
        _ => unreachable!(),
    }
}
