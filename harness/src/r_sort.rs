//! partition_mut / get_from_sorted_mut / get_many_from_sorted_mut on 1-D views.
use crate::common::*;
use crate::guarded;
use ndarray::{Array1, Ix1};
use ndarray_stats::Sort1dExt;

macro_rules! ord_types {
    ($et:expr, $T:ident => $body:expr) => {
        match $et {
            "i64" => { type $T = i64; $body }
            "u8" => { type $T = u8; $body }
            "i8" => { type $T = i8; $body }
            "u64" => { type $T = u64; $body }
            "n64" => { type $T = noisy_float::types::N64; $body }
            _ => panic!("unsupported element type"),
        }
    };
}

pub fn run(routine: &str, t: &mut Toks) -> String {
    let et = t.next();
    t.bar();
    ord_types!(et, T => run_t::<T>(routine, t))
}

fn run_t<T: Elem + Ord>(routine: &str, t: &mut Toks) -> String {
    let mut parent: Parent<T> = Parent::parse(t);
    t.bar();
    match routine {
        "partition" => {
            let p = t.usize();
            // ownership of the array the routine is called on: 0 a mutable view into the parent, 1 a
            // shared array (ArcArray) with a second live handle, 2 a copy-on-write array still borrowing
            // the parent.  For 1 and 2 the other handle / the parent must come out unchanged; the
            // result is then written into the parent so that the same model applies.
            let own = t.try_next().map(|x| x.parse::<usize>().expect("own")).unwrap_or(0);
            if own == 0 {
                let r = guarded(|| {
                    let mut v = parent.view_mut().into_dimensionality::<Ix1>().unwrap();
                    v.partition_mut(p)
                });
                return match r {
                    Some(k) => format!("OK {} | {}", k, parent.dump()),
                    None => format!("PANIC | {}", parent.dump()),
                };
            }
            let before = parent.dump();
            let r = guarded(|| {
                let lane = parent.view().into_dimensionality::<Ix1>().unwrap();
                if own == 1 {
                    let mut sh = lane.to_owned().into_shared();
                    let keep = sh.clone();
                    let k = sh.partition_mut(p);
                    let untouched = keep.iter().zip(lane.iter()).all(|(a, b)| a.show() == b.show());
                    (k, sh.to_vec(), untouched)
                } else {
                    let mut cow = ndarray::CowArray::from(lane.clone());
                    let k = cow.partition_mut(p);
                    (k, cow.to_vec(), true)
                }
            });
            match r {
                Some((k, vals, untouched)) => {
                    if !untouched || parent.dump() != before {
                        return format!("ALIAS-MODIFIED | {}", parent.dump());
                    }
                    let mut v = parent.view_mut().into_dimensionality::<Ix1>().unwrap();
                    for (dst, src) in v.iter_mut().zip(vals.into_iter()) {
                        *dst = src;
                    }
                    format!("OK {} | {}", k, parent.dump())
                }
                None => format!("PANIC | {}", parent.dump()),
            }
        }
        "select" => {
            let i = t.usize();
            t.bar();
            install_pivots(t);
            let r = guarded(|| {
                let mut v = parent.view_mut().into_dimensionality::<Ix1>().unwrap();
                v.get_from_sorted_mut(i)
            });
            let log = pivot_log();
            match r {
                Some(x) => format!("OK {} | {} | {}", x.show(), parent.dump(), log),
                None => format!("PANIC | {} | {}", parent.dump(), log),
            }
        }
        "select_many" => {
            let idxs = t.vec_usize();
            t.bar();
            install_pivots(t);
            // presentation of the index array (same logical contents): 0 owned, 1 reversed view of
            // reversed storage, 2 every second element of padded storage, 3 reversed stepped, 4 shared
            let il = t.try_next().map(|x| x.parse::<usize>().expect("il")).unwrap_or(0);
            let r = guarded(|| {
                let mut v = parent.view_mut().into_dimensionality::<Ix1>().unwrap();
                let rev: Vec<usize> = idxs.iter().rev().cloned().collect();
                let pad = |src: &Vec<usize>| -> Vec<usize> {
                    // junk between the entries: in-range positions that were not asked for, if any
                    let mut o = Vec::new();
                    for (k, &x) in src.iter().enumerate() {
                        o.push(x);
                        o.push(if x > 0 { x - 1 } else { k });
                    }
                    o
                };
                let m = match il {
                    1 => {
                        let st = Array1::from(rev);
                        v.get_many_from_sorted_mut(&st.slice(ndarray::s![..;-1]))
                    }
                    2 => {
                        let st = Array1::from(pad(&idxs));
                        v.get_many_from_sorted_mut(&st.slice(ndarray::s![..;2]))
                    }
                    3 => {
                        let mut p = pad(&rev);
                        // reversed stepped view must start at the last real entry: drop the trailing junk
                        p.pop();
                        let st = Array1::from(p);
                        v.get_many_from_sorted_mut(&st.slice(ndarray::s![..;-2]))
                    }
                    4 => v.get_many_from_sorted_mut(&Array1::from(idxs.clone()).into_shared()),
                    _ => v.get_many_from_sorted_mut(&Array1::from(idxs.clone())),
                };
                // iteration order of the IndexMap is part of the contract
                let keys: Vec<usize> = m.keys().cloned().collect();
                let vals: Vec<T> = m.values().cloned().collect();
                (keys, vals)
            });
            let log = pivot_log();
            match r {
                Some((k, v)) => format!(
                    "OK {} | {} | {} | {}",
                    show_usizes(&k),
                    show_vec(&v),
                    parent.dump(),
                    log
                ),
                None => format!("PANIC | {} | {}", parent.dump(), log),
            }
        }
        _ => unreachable!(),
    }
}
