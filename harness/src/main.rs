//! Correspondence harness: runs the real ndarray-stats routines on case lines
//! read from stdin and prints one canonical result line per case.
mod common;
mod r_c20;
mod r_hist;
mod r_minmax;
mod r_nan;
mod r_num;
mod r_quant;
mod r_sort;
mod r_strat;

use common::Toks;
use std::io::{BufRead, Write};
use std::panic::{catch_unwind, AssertUnwindSafe};

pub fn guarded<R>(f: impl FnOnce() -> R) -> Option<R> {
    catch_unwind(AssertUnwindSafe(f)).ok()
}

fn dispatch(routine: &str, t: &mut Toks) -> String {
    match routine {
        "partition" | "select" | "select_many" => r_sort::run(routine, t),
        "bins" | "grid" | "hist" | "histm" => r_hist::run(routine, t),
        "remove_nan" | "skipnan" | "skipnan_axis" => r_nan::run(routine, t),
        "minmax" => r_minmax::run(routine, t),
        "quantiles" | "quantile" | "quantiles1" | "quantile1" | "qskipnan" => r_quant::run(routine, t),
        "mean" | "harmonic_mean" | "geometric_mean" | "kurtosis" | "skewness" | "central_moment"
        | "central_moments" | "entropy" | "weighted_mean" | "weighted_sum" | "weighted_var"
        | "weighted_std" | "kl_divergence" | "cross_entropy" | "weighted_mean_axis"
        | "weighted_sum_axis" | "weighted_var_axis" | "weighted_std_axis" | "cov" | "nd_std_axis"
        | "pearson_correlation" | "count_eq" | "count_neq" | "sq_l2_dist" | "l1_dist" | "linf_dist"
        | "l2_dist" | "mean_abs_err" | "mean_sq_err" | "root_mean_sq_err"
        | "peak_signal_to_noise_ratio" | "libm" => r_num::run(routine, t),
        "strategy" | "gridb" => r_strat::run(routine, t),
        "layoutinv" => r_c20::run(routine, t),
        "profile" => {
            if cfg!(debug_assertions) {
                "OK debug".to_string()
            } else {
                "OK release".to_string()
            }
        }
        _ => format!("UNKNOWN-ROUTINE {}", routine),
    }
}

fn main() {
    std::panic::set_hook(Box::new(|_| {}));
    let stdin = std::io::stdin();
    let stdout = std::io::stdout();
    let mut out = stdout.lock();
    for line in stdin.lock().lines() {
        let line = line.expect("stdin");
        let line = line.trim();
        if line.is_empty() || line.starts_with('#') {
            continue;
        }
        let mut t = Toks::new(line);
        let id = t.next().to_string();
        let routine = t.next().to_string();
        // announce the case first so that an abort or hang can be attributed
        writeln!(out, "BEGIN {}", id).unwrap();
        out.flush().unwrap();
        let res = match guarded(|| dispatch(&routine, &mut t)) {
            Some(s) => s,
            None => "PANIC".to_string(),
        };
        writeln!(out, "{} {}", id, res).unwrap();
        out.flush().unwrap();
    }
}
