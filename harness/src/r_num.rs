//! Summary statistics, deviation measures, entropy, correlation.
use crate::common::*;
use crate::guarded;
use ndarray::{ArrayD, Axis, Ix1, Ix2};
use ndarray_stats::errors::{EmptyInput, MultiInputError};
use ndarray_stats::{CorrelationExt, DeviationExt, EntropyExt, SummaryStatisticsExt};
use num_bigint::BigInt;

thread_local! {
    /// shapes and strides (in elements) of the operands as ndarray reports them: the Coq model of
    /// ndarray's summation order (Num/Layout.v) is evaluated on these, not on a mirror of the slicing
    static LAYS: std::cell::RefCell<Vec<String>> = std::cell::RefCell::new(Vec::new());
}
fn note_layout<T>(v: &ndarray::ArrayViewD<'_, T>) {
    let mut s = format!("L {}", v.ndim());
    for d in v.shape() {
        s.push_str(&format!(" {}", d));
    }
    for st in v.strides() {
        s.push_str(&format!(" {}", st));
    }
    LAYS.with(|l| l.borrow_mut().push(s));
}

fn show_arr<T: Elem>(a: &ArrayD<T>) -> String {
    let v: Vec<T> = a.iter().cloned().collect();
    format!("{} | {}", show_usizes(a.shape()), show_vec(&v))
}
fn sc<T: Elem>(x: T) -> String {
    format!("0 | 1 {}", x.show())
}
fn f64s(x: f64) -> String {
    format!("0 | 1 {}", x.to_bits())
}
fn us(x: usize) -> String {
    format!("0 | 1 {}", x)
}
fn e_empty<T>(r: Result<T, EmptyInput>) -> Result<T, String> {
    r.map_err(|_| "ERR E".to_string())
}
fn e_multi<T>(r: Result<T, MultiInputError>) -> Result<T, String> {
    r.map_err(|e| match e {
        MultiInputError::EmptyInput => "ERR E".to_string(),
        MultiInputError::ShapeMismatch(s) => {
            format!("ERR S {} {}", show_usizes(&s.first_shape), show_usizes(&s.second_shape))
        }
    })
}
fn finish(r: Option<Result<String, String>>) -> String {
    let lays = LAYS.with(|l| l.borrow_mut().drain(..).collect::<Vec<_>>());
    let tail = if lays.is_empty() { String::new() } else { format!(" | {}", lays.join(" | ")) };
    match r {
        Some(Ok(s)) => format!("OK {}{}", s, tail),
        Some(Err(e)) => e,
        None => "PANIC".to_string(),
    }
}

/// float-only routines
fn run_float<T>(routine: &str, t: &mut Toks) -> String
where
    T: Elem + num_traits::Float + num_traits::FromPrimitive + std::ops::AddAssign + 'static,
{
    let a: Parent<T> = Parent::parse(t);
    t.bar();
    LAYS.with(|l| l.borrow_mut().clear());
    let r = guarded(|| -> Result<String, String> {
        let v = a.view();
        note_layout(&v);
        match routine {
            "mean" => e_empty(SummaryStatisticsExt::mean(&v)).map(sc),
            "harmonic_mean" => e_empty(v.harmonic_mean()).map(sc),
            "geometric_mean" => e_empty(v.geometric_mean()).map(sc),
            "kurtosis" => e_empty(v.kurtosis()).map(sc),
            "skewness" => e_empty(v.skewness()).map(sc),
            "central_moment" => {
                let p = t.usize() as u16;
                e_empty(v.central_moment(p)).map(sc)
            }
            "central_moments" => {
                let p = t.usize() as u16;
                e_empty(v.central_moments(p)).map(|m| format!("1 {} | {}", m.len(), show_vec(&m)))
            }
            "entropy" => e_empty(v.entropy()).map(sc),
            "weighted_mean" | "weighted_sum" | "weighted_var" | "weighted_std" | "kl_divergence"
            | "cross_entropy" => {
                let b: Second<T> = Second::parse(t);
                let w = b.view(&a);
                note_layout(&w);
                // the weighted routines take `&Self`: both operands are dynamic-dimensional views
                match routine {
                    "weighted_mean" => e_multi(v.weighted_mean(&w)).map(sc),
                    "weighted_sum" => e_multi(v.weighted_sum(&w)).map(sc),
                    "kl_divergence" => e_multi(v.kl_divergence(&w)).map(sc),
                    "cross_entropy" => e_multi(v.cross_entropy(&w)).map(sc),
                    _ => {
                        t.bar();
                        let ddof = T::parse(t.next());
                        if routine == "weighted_var" {
                            e_multi(v.weighted_var(&w, ddof)).map(sc)
                        } else {
                            e_multi(v.weighted_std(&w, ddof)).map(sc)
                        }
                    }
                }
            }
            "weighted_mean_axis" | "weighted_sum_axis" | "weighted_var_axis" | "weighted_std_axis" => {
                let b: Second<T> = Second::parse(t);
                let wd = b.view(&a);
                note_layout(&wd);
                let w = wd.into_dimensionality::<Ix1>().unwrap();
                t.bar();
                let axis = t.usize();
                match routine {
                    "weighted_mean_axis" => {
                        e_multi(v.weighted_mean_axis(Axis(axis), &w)).map(|r| show_arr(&r.into_dyn()))
                    }
                    "weighted_sum_axis" => {
                        e_multi(v.weighted_sum_axis(Axis(axis), &w)).map(|r| show_arr(&r.into_dyn()))
                    }
                    _ => {
                        let ddof = T::parse(t.next());
                        if routine == "weighted_var_axis" {
                            e_multi(v.weighted_var_axis(Axis(axis), &w, ddof)).map(|r| show_arr(&r.into_dyn()))
                        } else {
                            e_multi(v.weighted_std_axis(Axis(axis), &w, ddof)).map(|r| show_arr(&r.into_dyn()))
                        }
                    }
                }
            }
            "cov" => {
                let ddof = T::parse(t.next());
                let m = v.into_dimensionality::<Ix2>().unwrap();
                e_empty(m.cov(ddof)).map(|r| show_arr(&r.into_dyn()))
            }
            "pearson_correlation" => {
                let m = v.into_dimensionality::<Ix2>().unwrap();
                e_empty(m.pearson_correlation()).map(|r| show_arr(&r.into_dyn()))
            }
            // ndarray's own std_axis(Axis(1), 0): what pearson_correlation divides by.  Not a routine
            // of ndarray-stats; observed so that the model of it (Welford with a fused
            // multiply-add, Num/WelfordF64.v) is tied to the library the theorem talks about
            "nd_std_axis" => {
                let m = v.into_dimensionality::<Ix2>().unwrap();
                if m.len_of(Axis(1)) == 0 {
                    Ok("1 0 | 0".to_string())
                } else {
                    Ok(show_arr(&m.std_axis(Axis(1), T::zero()).into_dyn()))
                }
            }
            _ => Err(format!("UNKNOWN-ROUTINE {}", routine)),
        }
    });
    finish(r)
}

/// routines that also exist for integer element types
fn run_int<T>(routine: &str, t: &mut Toks) -> String
where
    T: Elem + Copy + num_traits::FromPrimitive + num_traits::Zero
        + std::ops::Add<Output = T> + std::ops::Div<Output = T> + std::ops::Mul<Output = T>,
{
    let a: Parent<T> = Parent::parse(t);
    t.bar();
    LAYS.with(|l| l.borrow_mut().clear());
    let r = guarded(|| -> Result<String, String> {
        let v = a.view();
        note_layout(&v);
        match routine {
            "mean" => e_empty(SummaryStatisticsExt::mean(&v)).map(sc),
            "weighted_mean" | "weighted_sum" => {
                let b: Second<T> = Second::parse(t);
                let w = b.view(&a);
                note_layout(&w);
                if routine == "weighted_mean" {
                    e_multi(v.weighted_mean(&w)).map(sc)
                } else {
                    e_multi(v.weighted_sum(&w)).map(sc)
                }
            }
            "weighted_mean_axis" | "weighted_sum_axis" => {
                let b: Second<T> = Second::parse(t);
                let wd = b.view(&a);
                note_layout(&wd);
                let w = wd.into_dimensionality::<Ix1>().unwrap();
                t.bar();
                let axis = t.usize();
                if routine == "weighted_mean_axis" {
                    e_multi(v.weighted_mean_axis(Axis(axis), &w)).map(|r| show_arr(&r.into_dyn()))
                } else {
                    e_multi(v.weighted_sum_axis(Axis(axis), &w)).map(|r| show_arr(&r.into_dyn()))
                }
            }
            _ => Err(format!("UNKNOWN-ROUTINE {}", routine)),
        }
    });
    finish(r)
}

/// deviation measures: signed element types; `own` selects the ownership of each operand
fn run_dev<T>(routine: &str, t: &mut Toks) -> String
where
    T: Elem + PartialOrd + num_traits::Signed + std::ops::AddAssign + num_traits::ToPrimitive,
{
    let a: Parent<T> = Parent::parse(t);
    t.bar();
    let b: Second<T> = Second::parse(t);
    t.bar();
    let own = t.usize();
    let maxv = t.try_next().map(|x| T::parse(x));
    LAYS.with(|l| l.borrow_mut().clear());
    let r = guarded(|| -> Result<String, String> {
        let va = a.view();
        let vb = b.view(&a);
        macro_rules! go {
            ($x:expr, $y:expr) => {
                match routine {
                    "count_eq" => e_multi($x.count_eq($y)).map(us),
                    "count_neq" => e_multi($x.count_neq($y)).map(us),
                    "sq_l2_dist" => e_multi($x.sq_l2_dist($y)).map(sc),
                    "l1_dist" => e_multi($x.l1_dist($y)).map(sc),
                    "linf_dist" => e_multi($x.linf_dist($y)).map(sc),
                    "l2_dist" => e_multi($x.l2_dist($y)).map(f64s),
                    "mean_abs_err" => e_multi($x.mean_abs_err($y)).map(f64s),
                    "mean_sq_err" => e_multi($x.mean_sq_err($y)).map(f64s),
                    "root_mean_sq_err" => e_multi($x.root_mean_sq_err($y)).map(f64s),
                    "peak_signal_to_noise_ratio" => {
                        e_multi($x.peak_signal_to_noise_ratio($y, maxv.clone().unwrap())).map(f64s)
                    }
                    _ => Err(format!("UNKNOWN-ROUTINE {}", routine)),
                }
            };
        }
        match own {
            0 => go!(va, &vb),
            1 => go!(va.to_owned(), &vb),
            2 => go!(va, &vb.to_owned()),
            3 => go!(va.to_shared(), &vb.to_shared()),
            _ => go!(va.to_owned(), &vb.to_owned()),
        }
    });
    finish(r)
}

/// the platform libm as Rust calls it: oracle tables for ln / exp / log10 / log2 / powf
fn libm(t: &mut Toks) -> String {
    let f = t.next().to_string();
    let et = t.next().to_string();
    t.bar();
    let n = t.usize();
    let mut out = n.to_string();
    for _ in 0..n {
        if et == "f64" {
            let x = f64::from_bits(t.u64());
            let y = match f.as_str() {
                "ln" => x.ln(),
                "exp" => x.exp(),
                "log10" => x.log10(),
                "log2" => x.log2(),
                "cbrt_powf" => x.powf(1. / 3.),
                _ => panic!("bad libm fn"),
            };
            out.push_str(&format!(" {}", y.to_bits()));
        } else {
            let x = f32::from_bits(t.u64() as u32);
            let y = match f.as_str() {
                "ln" => x.ln(),
                "exp" => x.exp(),
                "log10" => x.log10(),
                _ => panic!("bad libm fn"),
            };
            out.push_str(&format!(" {}", y.to_bits()));
        }
    }
    format!("OK {}", out)
}

pub fn run(routine: &str, t: &mut Toks) -> String {
    if routine == "libm" {
        return libm(t);
    }
    let et = t.next();
    t.bar();
    let dev = matches!(
        routine,
        "count_eq" | "count_neq" | "sq_l2_dist" | "l1_dist" | "linf_dist" | "l2_dist" | "mean_abs_err"
            | "mean_sq_err" | "root_mean_sq_err" | "peak_signal_to_noise_ratio"
    );
    if dev {
        return match et {
            "f64" => run_dev::<f64>(routine, t),
            "f32" => run_dev::<f32>(routine, t),
            "i32" => run_dev::<i32>(routine, t),
            "i64" => run_dev::<i64>(routine, t),
            "big" => run_dev::<BigInt>(routine, t),
            _ => panic!("unsupported element type"),
        };
    }
    match et {
        "f64" => run_float::<f64>(routine, t),
        "f32" => run_float::<f32>(routine, t),
        // noisy_float's checked double: every operation panics on a NaN result (debug profile)
        "n64" => run_float::<noisy_float::types::N64>(routine, t),
        "i32" => run_int::<i32>(routine, t),
        "i64" => run_int::<i64>(routine, t),
        "u64" => run_int::<u64>(routine, t),
        "usize" => run_int::<usize>(routine, t),
        _ => panic!("unsupported element type"),
    }
}
