//! MaybeNan::remove_nan_mut and the *_skipnan family.
use crate::common::*;
use crate::guarded;
use ndarray::{ArrayViewMut1, Axis, Dimension, Ix1, Slice};
use ndarray_stats::{MaybeNan, MaybeNanExt, QuantileExt};
use noisy_float::types::{N32, N64};

macro_rules! nan_types {
    ($et:expr, $T:ident => $body:expr) => {
        match $et {
            "f64" => { type $T = f64; $body }
            "f32" => { type $T = f32; $body }
            "oi32" => { type $T = Option<i32>; $body }
            "ou8" => { type $T = Option<u8>; $body }
            "oi128" => { type $T = Option<i128>; $body }
            "on64" => { type $T = Option<N64>; $body }
            "ou16" => { type $T = Option<u16>; $body }
            "ou32" => { type $T = Option<u32>; $body }
            "ou64" => { type $T = Option<u64>; $body }
            "ou128" => { type $T = Option<u128>; $body }
            "oi8" => { type $T = Option<i8>; $body }
            "oi16" => { type $T = Option<i16>; $body }
            "oi64" => { type $T = Option<i64>; $body }
            "on32" => { type $T = Option<N32>; $body }
            _ => panic!("unsupported element type"),
        }
    };
}

pub fn run(routine: &str, t: &mut Toks) -> String {
    let et = t.next();
    t.bar();
    nan_types!(et, T => run_t::<T>(routine, t))
}

/// (offset relative to the parent's first element, len, stride) of a returned view,
/// computed from the raw pointer without dereferencing it.
fn describe<U>(v: &ArrayViewMut1<'_, U>, base: *const u8, elem: usize) -> String {
    let off = (v.as_ptr() as isize - base as isize) / (elem as isize);
    format!("{} {} {}", off, v.len(), v.strides()[0])
}

/// NotNan values are shown through the MaybeNan type they came from.
pub trait ShowNotNan: MaybeNan {
    fn show_nn(v: &Self::NotNan) -> String;
}
impl<T: MaybeNan + Elem> ShowNotNan for T
where
    T::NotNan: Clone,
{
    fn show_nn(v: &Self::NotNan) -> String {
        T::from_not_nan(v.clone()).show()
    }
}

fn run_t<T>(routine: &str, t: &mut Toks) -> String
where
    T: MaybeNan + Elem + ShowNotNan,
    T::NotNan: Clone + Ord,
{
    let mut parent: Parent<T> = Parent::parse(t);
    let elem = std::mem::size_of::<T>();
    match routine {
        // remove_nan <et> | layout(1-D) | data
        "remove_nan" => {
            let base = parent.arr.as_ptr() as *const u8;
            let first = guarded(|| {
                let v = parent.view_mut().into_dimensionality::<Ix1>().unwrap();
                let r = T::remove_nan_mut(v);
                (describe(&r, base, elem), r.len())
            });
            let (d1, n1) = match first {
                Some(x) => x,
                None => return format!("PANIC | {}", parent.dump()),
            };
            let dump1 = parent.dump();
            // idempotence: strip the returned prefix of the same lane again
            let second = guarded(|| {
                let mut v = parent.view_mut().into_dimensionality::<Ix1>().unwrap();
                v.slice_axis_inplace(Axis(0), Slice::from(..n1));
                let r = T::remove_nan_mut(v);
                describe(&r, base, elem)
            });
            let d2 = second.unwrap_or_else(|| "PANIC".to_string());
            format!("OK {} | {} | {} | {}", d1, dump1, d2, parent.dump())
        }
        // skipnan <et> | layout | data
        "skipnan" => {
            let v = parent.view();
            let shape: Vec<usize> = v.shape().to_vec();
            let mins = T::show(v.min_skipnan());
            let maxs = T::show(v.max_skipnan());
            let amin = match v.argmin_skipnan() {
                Ok(p) => format!("S {}", show_usizes(p.slice())),
                Err(_) => "E".to_string(),
            };
            let amax = match v.argmax_skipnan() {
                Ok(p) => format!("S {}", show_usizes(p.slice())),
                Err(_) => "E".to_string(),
            };
            let folded: Vec<String> = v.fold_skipnan(Vec::new(), |mut acc, x| {
                acc.push(T::show_nn(x));
                acc
            });
            let mut visited: Vec<String> = Vec::new();
            v.visit_skipnan(|x| visited.push(T::show_nn(x)));
            let indexed: Vec<String> = v.indexed_fold_skipnan(Vec::new(), |mut acc, (p, x)| {
                acc.push(format!("{} {}", show_usizes(p.slice()), T::show_nn(x)));
                acc
            });
            format!(
                "OK {} | {} | {} | {} | {} | {} {} | {} {} | {} {}",
                show_usizes(&shape),
                mins,
                maxs,
                amin,
                amax,
                folded.len(),
                folded.join(" "),
                visited.len(),
                visited.join(" "),
                indexed.len(),
                indexed.join(" ")
            )
        }
        // skipnan_axis <et> | layout | data | axis
        "skipnan_axis" => {
            t.bar();
            let axis = t.usize();
            let folded = {
                let v = parent.view();
                let r = v.fold_axis_skipnan(Axis(axis), Vec::<String>::new(), |acc, x| {
                    let mut a = acc.clone();
                    a.push(T::show_nn(x));
                    a
                });
                let sh = r.shape().to_vec();
                let lanes: Vec<String> = r.iter().map(|l| format!("{} {}", l.len(), l.join(" "))).collect();
                format!("{} | {} {}", show_usizes(&sh), lanes.len(), lanes.join(" "))
            };
            let mapped = guarded(|| {
                let mut v = parent.view_mut();
                let r = v.map_axis_skipnan_mut(Axis(axis), |lane| {
                    let items: Vec<String> = lane.iter().map(|x| T::show_nn(x)).collect();
                    format!("{} {}", items.len(), items.join(" "))
                });
                let sh = r.shape().to_vec();
                let lanes: Vec<String> = r.iter().cloned().collect();
                format!("{} | {} {}", show_usizes(&sh), lanes.len(), lanes.join(" "))
            });
            match mapped {
                Some(m) => format!("OK {} | {} | {}", folded, m, parent.dump()),
                None => format!("PANIC {} | {}", folded, parent.dump()),
            }
        }
        _ => unreachable!(),
    }
}
