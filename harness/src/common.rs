//! Shared plumbing: token stream, element encodings, layout zoo, pivot modes.
use ndarray::{ArrayD, ArrayViewD, ArrayViewMutD, Axis, IxDyn, Slice};
use noisy_float::types::{n32, n64, N32, N64};
use num_bigint::BigInt;

pub struct Toks<'a> {
    it: std::str::SplitWhitespace<'a>,
}

impl<'a> Toks<'a> {
    pub fn new(s: &'a str) -> Self {
        Toks {
            it: s.split_whitespace(),
        }
    }
    pub fn next(&mut self) -> &'a str {
        self.it.next().expect("missing token")
    }
    pub fn try_next(&mut self) -> Option<&'a str> {
        self.it.next()
    }
    pub fn usize(&mut self) -> usize {
        self.next().parse().expect("usize")
    }
    pub fn isize(&mut self) -> isize {
        self.next().parse().expect("isize")
    }
    pub fn u64(&mut self) -> u64 {
        self.next().parse().expect("u64")
    }
    pub fn f64bits(&mut self) -> f64 {
        f64::from_bits(self.u64())
    }
    pub fn bar(&mut self) {
        let t = self.next();
        assert_eq!(t, "|", "expected section separator");
    }
    pub fn vec_usize(&mut self) -> Vec<usize> {
        let n = self.usize();
        (0..n).map(|_| self.usize()).collect()
    }
    pub fn vec<T: Elem>(&mut self) -> Vec<T> {
        let n = self.usize();
        (0..n).map(|_| T::parse(self.next())).collect()
    }
}

/// Element encodings: everything travels as integers (floats as bit patterns).
pub trait Elem: Clone {
    fn parse(tok: &str) -> Self;
    fn show(&self) -> String;
}

macro_rules! elem_int {
    ($($t:ty),*) => {$(
        impl Elem for $t {
            fn parse(tok: &str) -> Self { tok.parse().expect(concat!("bad ", stringify!($t))) }
            fn show(&self) -> String { self.to_string() }
        }
    )*};
}
elem_int!(i8, i16, i32, i64, i128, u8, u16, u32, u64, u128, usize, isize);

impl Elem for f64 {
    fn parse(tok: &str) -> Self {
        f64::from_bits(tok.parse().expect("f64 bits"))
    }
    fn show(&self) -> String {
        self.to_bits().to_string()
    }
}
impl Elem for f32 {
    fn parse(tok: &str) -> Self {
        f32::from_bits(tok.parse().expect("f32 bits"))
    }
    fn show(&self) -> String {
        self.to_bits().to_string()
    }
}
impl Elem for N64 {
    fn parse(tok: &str) -> Self {
        n64(f64::from_bits(tok.parse().expect("n64 bits")))
    }
    fn show(&self) -> String {
        self.raw().to_bits().to_string()
    }
}
impl Elem for N32 {
    fn parse(tok: &str) -> Self {
        n32(f32::from_bits(tok.parse().expect("n32 bits")))
    }
    fn show(&self) -> String {
        self.raw().to_bits().to_string()
    }
}
impl Elem for BigInt {
    fn parse(tok: &str) -> Self {
        tok.parse().expect("bigint")
    }
    fn show(&self) -> String {
        self.to_string()
    }
}
impl<T: Elem> Elem for Option<T> {
    fn parse(tok: &str) -> Self {
        if tok == "N" {
            None
        } else {
            Some(T::parse(tok))
        }
    }
    fn show(&self) -> String {
        match self {
            None => "N".to_string(),
            Some(x) => x.show(),
        }
    }
}

pub fn show_vec<T: Elem>(v: &[T]) -> String {
    let mut s = v.len().to_string();
    for x in v {
        s.push(' ');
        s.push_str(&x.show());
    }
    s
}

pub fn show_usizes(v: &[usize]) -> String {
    let mut s = v.len().to_string();
    for x in v {
        s.push(' ');
        s.push_str(&x.to_string());
    }
    s
}

/// A view into a parent allocation: the parent is a C-order array of shape
/// `pshape`; each axis is sliced with `(start, end, step)` (ndarray `Slice`
/// semantics: a negative step walks the selected range backwards) and the axes
/// are then permuted.
#[derive(Clone, Debug)]
pub struct Layout {
    pub pshape: Vec<usize>,
    pub slices: Vec<(isize, isize, isize)>,
    pub perm: Vec<usize>,
}

impl Layout {
    pub fn parse(t: &mut Toks) -> Layout {
        let nd = t.usize();
        let pshape: Vec<usize> = (0..nd).map(|_| t.usize()).collect();
        let slices = (0..nd)
            .map(|_| {
                let a = t.isize();
                let b = t.isize();
                let c = t.isize();
                (a, b, c)
            })
            .collect();
        let perm = (0..nd).map(|_| t.usize()).collect();
        Layout {
            pshape,
            slices,
            perm,
        }
    }
    pub fn parent_len(&self) -> usize {
        self.pshape.iter().product()
    }
}

/// Restricts axis `ax` of `$v` to `start..end` with `step`.  A slice that keeps the whole axis is
/// not performed as a slice: ndarray's slicing resets the stride of an axis of length <= 1 to 0,
/// whereas arrays built by `insert_axis`, `t()`, `permuted_axes`, `into_shape` or in F order carry
/// arbitrary non-zero strides on their unit axes (and still count as contiguous).  Keeping the
/// parent's stride (negated by `invert_axis` for a full reversed axis) makes those arrays reachable.
macro_rules! narrow {
    ($v:expr, $ax:expr, $a:expr, $b:expr, $c:expr, $plen:expr) => {
        if $a == 0 && $b == $plen as isize && $c == 1 {
        } else if $a == 0 && $b == $plen as isize && $c == -1 {
            $v.invert_axis(Axis($ax));
        } else {
            $v.slice_axis_inplace(Axis($ax), Slice::new($a, Some($b), $c));
        }
    };
}

/// Owns the parent allocation and hands out the view described by the layout.
pub struct Parent<T> {
    pub arr: ArrayD<T>,
    pub layout: Layout,
}

impl<T: Elem> Parent<T> {
    pub fn parse(t: &mut Toks) -> Parent<T> {
        let layout = Layout::parse(t);
        t.bar();
        let data: Vec<T> = t.vec();
        assert_eq!(data.len(), layout.parent_len(), "parent buffer length");
        let arr = ArrayD::from_shape_vec(IxDyn(&layout.pshape), data).expect("parent shape");
        Parent { arr, layout }
    }
    pub fn view_mut(&mut self) -> ArrayViewMutD<'_, T> {
        let mut v = self.arr.view_mut();
        for (ax, &(a, b, c)) in self.layout.slices.iter().enumerate() {
            narrow!(v, ax, a, b, c, self.layout.pshape[ax]);
        }
        v.permuted_axes(IxDyn(&self.layout.perm))
    }
    pub fn view(&self) -> ArrayViewD<'_, T> {
        let mut v = self.arr.view();
        for (ax, &(a, b, c)) in self.layout.slices.iter().enumerate() {
            narrow!(v, ax, a, b, c, self.layout.pshape[ax]);
        }
        v.permuted_axes(IxDyn(&self.layout.perm))
    }
    /// An OWNED array with the layout's shape and strides that still holds the whole parent
    /// allocation (narrowed in place, like `Array::slice_move`): its backing vector contains
    /// elements that are not part of the logical array.
    pub fn owned_sliced(&self) -> ArrayD<T> {
        let mut o = self.arr.clone();
        for (ax, &(a, b, c)) in self.layout.slices.iter().enumerate() {
            narrow!(o, ax, a, b, c, self.layout.pshape[ax]);
        }
        o.permuted_axes(IxDyn(&self.layout.perm))
    }
    /// The whole parent buffer in allocation order.
    pub fn dump(&self) -> String {
        let v: Vec<T> = self.arr.iter().cloned().collect();
        show_vec(&v)
    }
}

/// The view a layout describes inside a given allocation.
pub fn view_of<'a, T>(arr: &'a ArrayD<T>, layout: &Layout) -> ArrayViewD<'a, T> {
    let mut v = arr.view();
    for (ax, &(a, b, c)) in layout.slices.iter().enumerate() {
        narrow!(v, ax, a, b, c, layout.pshape[ax]);
    }
    v.permuted_axes(IxDyn(&layout.perm))
}

/// Second operand of a two-array routine: its own allocation, or (data section `@`) another
/// view into the FIRST operand's allocation, so that the two operands alias.
pub enum Second<T> {
    Own(Parent<T>),
    Alias(Layout),
}

impl<T: Elem> Second<T> {
    pub fn parse(t: &mut Toks) -> Second<T> {
        let layout = Layout::parse(t);
        t.bar();
        let mut probe = Toks { it: t.it.clone() };
        if probe.next() == "@" {
            t.next();
            return Second::Alias(layout);
        }
        let data: Vec<T> = t.vec();
        assert_eq!(data.len(), layout.parent_len(), "parent buffer length");
        let arr = ArrayD::from_shape_vec(IxDyn(&layout.pshape), data).expect("parent shape");
        Second::Own(Parent { arr, layout })
    }
    pub fn view<'a>(&'a self, first: &'a Parent<T>) -> ArrayViewD<'a, T> {
        match self {
            Second::Own(p) => p.view(),
            Second::Alias(l) => {
                assert_eq!(l.pshape, first.layout.pshape, "alias parent shape");
                view_of(&first.arr, l)
            }
        }
    }
}

/// Presents the logical 1-D contents `vals` to `f` as a view in one of several memory layouts
/// (same logical contents): 0 contiguous, 1 reversed view of reversed storage (stride -1),
/// 2 every second element of padded storage (stride 2), 3 reversed stepped (stride -2).
/// `junk(k, x)` supplies the padding element that follows entry `x` at position `k`.
pub fn present<T: Clone, R>(
    vals: &[T],
    il: usize,
    junk: impl Fn(usize, &T) -> T,
    f: impl FnOnce(ndarray::ArrayView1<'_, T>) -> R,
) -> R {
    use ndarray::{s, Array1};
    let rev: Vec<T> = vals.iter().rev().cloned().collect();
    let pad = |src: &Vec<T>| -> Vec<T> {
        let mut o = Vec::new();
        for (k, x) in src.iter().enumerate() {
            o.push(x.clone());
            o.push(junk(k, x));
        }
        o
    };
    match il {
        1 => {
            let st = Array1::from(rev);
            f(st.slice(s![..;-1]))
        }
        2 => {
            let st = Array1::from(pad(&vals.to_vec()));
            f(st.slice(s![..;2]))
        }
        3 => {
            let mut p = pad(&rev);
            p.pop();
            let st = Array1::from(p);
            f(st.slice(s![..;-2]))
        }
        _ => {
            let st = Array1::from(vals.to_vec());
            f(st.view())
        }
    }
}

/// Offsets (in elements, relative to the parent's first element) of a 1-D view.
pub fn offsets_1d<T>(base: *const T, ptr: *const T, len: usize, stride: isize) -> Vec<isize> {
    let off = (ptr as isize - base as isize) / (std::mem::size_of::<T>() as isize);
    (0..len as isize).map(|k| off + k * stride).collect()
}

#[cfg(ndarray_stats_verif)]
pub fn install_pivots(t: &mut Toks) {
    use ndarray_stats::verif_hooks::{install, PivotMode};
    let m = t.next();
    match m {
        "R" => install(PivotMode::Record),
        "S" => {
            let v = t.vec_usize();
            install(PivotMode::Script(v))
        }
        "P" => {
            let id = t.u64();
            install(PivotMode::Policy(id))
        }
        _ => panic!("bad pivot mode"),
    }
}

#[cfg(ndarray_stats_verif)]
pub fn pivot_log() -> String {
    let log = ndarray_stats::verif_hooks::take_log();
    let mut s = log.len().to_string();
    for (n, c) in log {
        s.push_str(&format!(" {} {}", n, c));
    }
    s
}

#[cfg(not(ndarray_stats_verif))]
pub fn install_pivots(t: &mut Toks) {
    let m = t.next();
    match m {
        "R" => {}
        "S" => {
            let _ = t.vec_usize();
        }
        "P" => {
            let _ = t.u64();
        }
        _ => panic!("bad pivot mode"),
    }
}

#[cfg(not(ndarray_stats_verif))]
pub fn pivot_log() -> String {
    "0".to_string()
}
