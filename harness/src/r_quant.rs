//! quantile(s)_axis_mut, quantile(s)_mut, quantile_axis_skipnan_mut.
use crate::common::*;
use crate::guarded;
use ndarray::{Array1, ArrayD, Axis, Ix1};
use ndarray_stats::errors::QuantileError;
use ndarray_stats::interpolate::{Higher, Interpolate, Linear, Lower, Midpoint, Nearest};
use ndarray_stats::{MaybeNan, Quantile1dExt, QuantileExt};
use noisy_float::types::{n64, N64};

fn show_err(e: &QuantileError) -> String {
    match e {
        QuantileError::EmptyInput => "ERR E".to_string(),
        QuantileError::InvalidQuantile(q) => format!("ERR I {}", q.raw().to_bits()),
    }
}

fn parse_qs(t: &mut Toks) -> Vec<N64> {
    let n = t.usize();
    // bit patterns; a NaN cannot be put in an N64 (the constructor panics in debug builds)
    (0..n).map(|_| n64(t.f64bits())).collect()
}

fn show_arr<T: Elem>(a: &ArrayD<T>) -> String {
    let v: Vec<T> = a.iter().cloned().collect();
    format!("{} | {}", show_usizes(a.shape()), show_vec(&v))
}

fn run_plain<T, I>(routine: &str, t: &mut Toks, interp: &I) -> String
where
    T: Elem + Ord,
    I: Interpolate<T>,
{
    let mut parent: Parent<T> = Parent::parse(t);
    t.bar();
    let axis = t.usize();
    t.bar();
    let qs = parse_qs(t);
    t.bar();
    install_pivots(t);
    // presentation of the q array (same logical contents), see common::present; the padding
    // entries are out-of-range quantiles, which must never be looked at
    let il = t.try_next().map(|x| x.parse::<usize>().expect("il")).unwrap_or(0);
    let junk = |k: usize, _: &N64| n64(if k % 2 == 0 { 7.5 } else { -3.25 });
    let r = guarded(|| match routine {
        "quantiles" if il > 0 => present(&qs, il, junk, |qv| {
            parent
                .view_mut()
                .quantiles_axis_mut(Axis(axis), &qv, interp)
                .map(|a| show_arr(&a.into_dyn()))
        }),
        "quantiles1" if il > 0 => present(&qs, il, junk, |qv| {
            parent
                .view_mut()
                .into_dimensionality::<Ix1>()
                .unwrap()
                .quantiles_mut(&qv, interp)
                .map(|a| show_arr(&a.into_dyn()))
        }),
        "quantiles" => parent
            .view_mut()
            .quantiles_axis_mut(Axis(axis), &Array1::from(qs.clone()), interp)
            .map(|a| show_arr(&a.into_dyn())),
        "quantile" => parent
            .view_mut()
            .quantile_axis_mut(Axis(axis), qs[0], interp)
            .map(|a| show_arr(&a.into_dyn())),
        "quantiles1" => parent
            .view_mut()
            .into_dimensionality::<Ix1>()
            .unwrap()
            .quantiles_mut(&Array1::from(qs.clone()), interp)
            .map(|a| show_arr(&a.into_dyn())),
        "quantile1" => parent
            .view_mut()
            .into_dimensionality::<Ix1>()
            .unwrap()
            .quantile_mut(qs[0], interp)
            .map(|x| format!("0 | 1 {}", x.show())),
        _ => unreachable!(),
    });
    let log = pivot_log();
    match r {
        Some(Ok(s)) => format!("OK {} | {} | {}", s, parent.dump(), log),
        Some(Err(e)) => format!("{} | {} | {}", show_err(&e), parent.dump(), log),
        None => format!("PANIC | {} | {}", parent.dump(), log),
    }
}

fn run_skipnan<T, I>(t: &mut Toks, interp: &I) -> String
where
    T: Elem + MaybeNan,
    T::NotNan: Clone + Ord,
    I: Interpolate<T::NotNan>,
{
    let mut parent: Parent<T> = Parent::parse(t);
    t.bar();
    let axis = t.usize();
    t.bar();
    let qs = parse_qs(t);
    t.bar();
    install_pivots(t);
    let r = guarded(|| {
        parent
            .view_mut()
            .quantile_axis_skipnan_mut(Axis(axis), qs[0], interp)
            .map(|a| show_arr(&a.into_dyn()))
    });
    let log = pivot_log();
    match r {
        Some(Ok(s)) => format!("OK {} | {} | {}", s, parent.dump(), log),
        Some(Err(e)) => format!("{} | {} | {}", show_err(&e), parent.dump(), log),
        None => format!("PANIC | {} | {}", parent.dump(), log),
    }
}

macro_rules! by_strat {
    ($st:expr, $f:ident, $T:ty, $($args:expr),*) => {
        match $st {
            "0" => $f::<$T, _>($($args,)* &Higher),
            "1" => $f::<$T, _>($($args,)* &Lower),
            "2" => $f::<$T, _>($($args,)* &Nearest),
            "3" => $f::<$T, _>($($args,)* &Midpoint),
            "4" => $f::<$T, _>($($args,)* &Linear),
            _ => panic!("bad strategy"),
        }
    };
}

pub fn run(routine: &str, t: &mut Toks) -> String {
    let et = t.next();
    let st = t.next();
    t.bar();
    if routine == "qskipnan" {
        return match et {
            "f64" => by_strat!(st, run_skipnan, f64, t),
            "f32" => by_strat!(st, run_skipnan, f32, t),
            "oi32" => by_strat!(st, run_skipnan, Option<i32>, t),
            "ou8" => by_strat!(st, run_skipnan, Option<u8>, t),
            "oi64" => by_strat!(st, run_skipnan, Option<i64>, t),
            "on64" => by_strat!(st, run_skipnan, Option<N64>, t),
            _ => panic!("unsupported element type"),
        };
    }
    match et {
        "i8" => by_strat!(st, run_plain, i8, routine, t),
        "i32" => by_strat!(st, run_plain, i32, routine, t),
        "i64" => by_strat!(st, run_plain, i64, routine, t),
        "u8" => by_strat!(st, run_plain, u8, routine, t),
        "u64" => by_strat!(st, run_plain, u64, routine, t),
        "n64" => by_strat!(st, run_plain, N64, routine, t),
        _ => panic!("unsupported element type"),
    }
}
