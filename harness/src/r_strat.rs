//! Bin-building strategies, GridBuilder and the histogram over the built grid.
use crate::common::*;
use crate::guarded;
use ndarray::{Ix1, Ix2};
use ndarray_stats::histogram::strategies::{Auto, BinsBuildingStrategy, FreedmanDiaconis, Rice, Sqrt, Sturges};
use ndarray_stats::histogram::{Bins, GridBuilder};
use ndarray_stats::HistogramExt;
use num_traits::{FromPrimitive, NumOps, Zero};

fn show_bins<T: Elem + Ord>(b: &Bins<T>) -> String {
    let n = b.len();
    let mut edges: Vec<T> = Vec::new();
    for i in 0..n {
        let r = b.index(i);
        if i == 0 {
            edges.push(r.start);
        }
        edges.push(r.end);
    }
    format!("{} | {}", n, show_vec(&edges))
}

trait Width<T> {
    fn width(&self) -> T;
}
macro_rules! impl_width {
    ($($S:ident),*) => {$(
        impl<T: Ord + Clone + FromPrimitive + NumOps + Zero> Width<T> for $S<T> {
            fn width(&self) -> T { self.bin_width() }
        }
    )*};
}
impl_width!(Sqrt, Rice, Sturges, FreedmanDiaconis, Auto);

/// libm values the width formulas use for `n` observations (recorded for the model, which takes
/// them as an oracle table): powf(n, 1/3) and log2(n)
fn libm_section(n: usize) -> String {
    #[allow(clippy::cast_precision_loss)]
    let x = n as f64;
    format!("M {} {}", x.powf(1. / 3.).to_bits(), x.log2().to_bits())
}

fn do_strategy<T, S>(parent: &Parent<T>) -> String
where
    T: Elem + Ord,
    S: BinsBuildingStrategy<Elem = T> + Width<T>,
{
    let n = parent.view().len();
    let r = do_strategy_inner::<T, S>(parent);
    format!("{} | {} | {}", r, libm_section(n), pivot_log())
}

fn do_strategy_inner<T, S>(parent: &Parent<T>) -> String
where
    T: Elem + Ord,
    S: BinsBuildingStrategy<Elem = T> + Width<T>,
{
    let r = guarded(|| {
        let v = parent.view().into_dimensionality::<Ix1>().unwrap();
        match S::from_array(&v) {
            Err(e) => {
                if e.is_empty_input() {
                    "ERR E".to_string()
                } else if e.is_strategy() {
                    "ERR S".to_string()
                } else {
                    "ERR ?".to_string()
                }
            }
            Ok(s) => {
                let w = s.width();
                let nb = s.n_bins();
                let bins = s.build();
                format!("OK {} {} | {}", w.show(), nb, show_bins(&bins))
            }
        }
    });
    r.unwrap_or_else(|| "PANIC".to_string())
}

fn do_gridb<T, S>(parent: &Parent<T>) -> String
where
    T: Elem + Ord,
    S: BinsBuildingStrategy<Elem = T>,
{
    let r = guarded(|| {
        let v = parent.view().into_dimensionality::<Ix2>().unwrap();
        match GridBuilder::<S>::from_array(&v) {
            Err(e) => {
                if e.is_empty_input() {
                    "ERR E".to_string()
                } else if e.is_strategy() {
                    "ERR S".to_string()
                } else {
                    "ERR ?".to_string()
                }
            }
            Ok(gb) => {
                let grid = gb.build();
                let shape = grid.shape();
                let proj: Vec<String> = grid.projections().iter().map(|b| show_bins(b)).collect();
                let h = v.histogram(grid);
                let total: usize = h.counts().iter().sum();
                let counts: Vec<usize> = h.counts().iter().cloned().collect();
                format!(
                    "OK {} | {} | {} | {} | C {} | {}",
                    show_usizes(&shape),
                    total,
                    proj.len(),
                    proj.join(" | "),
                    show_usizes(h.counts().shape()),
                    show_usizes(&counts)
                )
            }
        }
    });
    r.unwrap_or_else(|| "PANIC".to_string())
}

fn run_t<T>(routine: &str, name: &str, t: &mut Toks) -> String
where
    T: Elem + Ord + FromPrimitive + NumOps + Zero,
{
    let parent: Parent<T> = Parent::parse(t);
    // optional pivot mode for the selections inside FreedmanDiaconis / Auto (default: drawn pivots)
    match t.try_next() {
        Some("|") => install_pivots(t),
        Some(x) => panic!("unexpected token {}", x),
        None => {
            let mut d = Toks::new("R");
            install_pivots(&mut d)
        }
    }
    match (routine, name) {
        ("strategy", "sqrt") => do_strategy::<T, Sqrt<T>>(&parent),
        ("strategy", "rice") => do_strategy::<T, Rice<T>>(&parent),
        ("strategy", "sturges") => do_strategy::<T, Sturges<T>>(&parent),
        ("strategy", "fd") => do_strategy::<T, FreedmanDiaconis<T>>(&parent),
        ("strategy", "auto") => do_strategy::<T, Auto<T>>(&parent),
        ("gridb", "sqrt") => do_gridb::<T, Sqrt<T>>(&parent),
        ("gridb", "rice") => do_gridb::<T, Rice<T>>(&parent),
        ("gridb", "sturges") => do_gridb::<T, Sturges<T>>(&parent),
        ("gridb", "fd") => do_gridb::<T, FreedmanDiaconis<T>>(&parent),
        ("gridb", "auto") => do_gridb::<T, Auto<T>>(&parent),
        _ => panic!("bad routine/strategy"),
    }
}

pub fn run(routine: &str, t: &mut Toks) -> String {
    let name = t.next().to_string();
    let et = t.next();
    t.bar();
    match et {
        "i8" => run_t::<i8>(routine, &name, t),
        "u8" => run_t::<u8>(routine, &name, t),
        "i32" => run_t::<i32>(routine, &name, t),
        "i64" => run_t::<i64>(routine, &name, t),
        "u16" => run_t::<u16>(routine, &name, t),
        "usize" => run_t::<usize>(routine, &name, t),
        "n64" => run_t::<noisy_float::types::N64>(routine, &name, t),
        _ => panic!("unsupported element type"),
    }
}
