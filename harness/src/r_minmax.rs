//! QuantileExt::{argmin, argmax, min, max} on n-D views.
use crate::common::*;
use ndarray::Dimension;
use ndarray_stats::errors::MinMaxError;
use ndarray_stats::QuantileExt;

macro_rules! po_types {
    ($et:expr, $T:ident => $body:expr) => {
        match $et {
            "f64" => { type $T = f64; $body }
            "f32" => { type $T = f32; $body }
            "i32" => { type $T = i32; $body }
            "i64" => { type $T = i64; $body }
            "u8" => { type $T = u8; $body }
            _ => panic!("unsupported element type"),
        }
    };
}

pub fn run(routine: &str, t: &mut Toks) -> String {
    let et = t.next();
    t.bar();
    po_types!(et, T => run_t::<T>(routine, t))
}

fn err(e: MinMaxError) -> &'static str {
    match e {
        MinMaxError::EmptyInput => "E",
        MinMaxError::UndefinedOrder => "U",
    }
}

fn run_t<T: Elem + PartialOrd>(_routine: &str, t: &mut Toks) -> String {
    let parent: Parent<T> = Parent::parse(t);
    let v = parent.view();
    let amin = match v.argmin() {
        Ok(p) => format!("S {}", show_usizes(p.slice())),
        Err(e) => err(e).to_string(),
    };
    let amax = match v.argmax() {
        Ok(p) => format!("S {}", show_usizes(p.slice())),
        Err(e) => err(e).to_string(),
    };
    let mn = match v.min() {
        Ok(x) => format!("S {}", x.show()),
        Err(e) => err(e).to_string(),
    };
    let mx = match v.max() {
        Ok(x) => format!("S {}", x.show()),
        Err(e) => err(e).to_string(),
    };
    format!("OK {} | {} | {} | {} | {}", show_usizes(v.shape()), amin, amax, mn, mx)
}
